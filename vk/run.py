"""vk.run -- harness objects, per-harness driver (explore, discharge, replay, validate)."""
import os, sys, time, json, hashlib, inspect, traceback, importlib
import numpy as np
import z3
from . import core, symnp, solve
from .core import Explorer, run_concrete, VkError, Reject

VERIF = os.path.dirname(os.path.dirname(os.path.abspath(__file__)))
REPLAYS = os.path.join(VERIF, "replays")


class Harness:
    def __init__(self, id, body, functions=(), bounds=None, assumptions=(), stubs=(), params=None, opts=None,
                 allow_exc=(), validate=3, doc="", budget=None, expect_obligations=True):
        self.id = id                      # e.g. "C07.conserve"
        self.prop = id.split(".")[0]
        self.body = body
        self.functions = list(functions)  # real kawin callables executed symbolically
        self.bounds = bounds or {}
        self.assumptions = list(assumptions)
        self.stubs = list(stubs)
        self.params = params or {"quick": [{}], "thorough": [{}]}
        self.opts = opts or {}
        self.allow_exc = tuple(allow_exc)
        self.validate = validate
        self.doc = doc or (body.__doc__ or "").strip()
        self.budget = budget or {"quick": 90.0, "thorough": 900.0}
        self.expect_obligations = expect_obligations


def func_sig(f):
    try:
        src = inspect.getsource(f)
        fn = inspect.getsourcefile(f) or "?"
        repo = os.environ.get("VK_REPO", "/repo")
        fn = os.path.relpath(fn, repo) if fn.startswith(repo) else fn
        q = getattr(f, "__qualname__", getattr(f, "__name__", "?"))
        return {"function": "%s:%s" % (fn, q), "sha1": hashlib.sha1(src.encode()).hexdigest()[:12]}
    except Exception as e:
        return {"function": repr(f), "sha1": "n/a"}


def _import_kawin():
    import kawin  # noqa
    for m in ("kawin.precipitation", "kawin.diffusion", "kawin.solver", "kawin.thermo",
              "kawin.precipitation.coupling", "kawin.precipitation.parameters", "kawin.GenericModel"):
        try:
            importlib.import_module(m)
        except Exception:
            pass


def _jsonable(v):
    if isinstance(v, (np.floating,)):
        return float(v)
    if isinstance(v, (np.integer,)):
        return int(v)
    if isinstance(v, (np.bool_,)):
        return bool(v)
    return v


def replay_concrete(h, params, values, want=None):
    params = {k: v for k, v in params.items() if k != "shard"}
    """run the harness body on plain numpy / unpatched kawin with concrete inputs.
    returns dict(violated=[(name,occ)], exception=repr|None, rejected=bool)"""
    out = {"violated": [], "exception": None, "exc_type": None, "rejected": False, "obligations": 0}
    try:
        with np.errstate(all="ignore"):
            ctx, _ = run_concrete(lambda c: h.body(c, **params), values)
        out["obligations"] = len(ctx.obligations)
        out["violated"] = [(r.name, r.occ) for r in ctx.obligations if r.status == "violated"]
    except (Reject, core.PathAbort) as e:
        out["rejected"] = True
    except VkError:
        raise
    except Exception as e:
        out["exception"] = "%s: %s" % (type(e).__name__, e)
        out["exc_type"] = type(e).__name__
        c = core._CUR[0]
    return out


def scaled_candidates(model, limit=160):
    """variants of a solver witness with one input group (same array / same name stem) multiplied by a power of ten"""
    groups = {}
    for k, v in model.items():
        if k == "__uf__" or isinstance(v, bool) or not isinstance(v, (int, float)):
            continue
        stem = k.split("[")[0]
        groups.setdefault(stem, []).append(k)
    n = 0
    for f in (1e-3, 1e-6, 1e-9, 1e-12, 1e3, 1e6, 1e9):
        for stem, keys in groups.items():
            m = dict(model)
            for k in keys:
                m[k] = model[k] * f
            n += 1
            if n > limit:
                return
            yield m


def write_replay(h, params, tier, obligation, occ, values, kind):
    params = {k: v for k, v in params.items() if k != "shard"}
    os.makedirs(REPLAYS, exist_ok=True)
    rec = {"property": h.prop, "harness": h.id, "params": params, "obligation": obligation, "occ": occ,
           "kind": kind, "inputs": {k: _jsonable(v) for k, v in values.items()}}
    dig = hashlib.sha1(json.dumps(rec, sort_keys=True, default=str).encode()).hexdigest()[:10]
    path = os.path.join(REPLAYS, "%s-%s-%s.json" % (h.id, obligation.replace("/", "_").replace(":", "_").replace(" ", "_")[:40], dig))
    with open(path, "w") as f:
        json.dump(rec, f, indent=1, sort_keys=True, default=str)
    return path


def run_harness(h, params, tier, seed):
    """explore every path of the harness body, discharge obligations, replay candidates, validate the shim"""
    t_start = time.time()
    _import_kawin()
    budget = h.budget.get(tier, 90.0)
    opts = dict(h.opts)
    opts.update(params.get("_opts", {}))
    bparams = {k: v for k, v in params.items() if not k.startswith("_")}
    if opts.get("shard") is not None:
        bparams = dict(bparams); bparams["shard"] = "%d/%d" % (opts["shard"][0], 2 ** opts["shard"][1])
    res = {"harness": h.id, "params": bparams, "paths": 0, "paths_reachable": 0, "paths_aborted": 0, "paths_exception": 0,
           "obligations": 0, "discharged": 0, "inconclusive": 0, "candidates": 0, "violations": [], "nonrepro": [],
           "inconclusive_list": [], "solver_s": 0.0, "branch_s": 0.0, "validated": 0, "validation_errors": [],
           "samples": [], "axioms": [], "how": {}, "harness_errors": [], "budget_exhausted": False, "by_name": {}}
    body = lambda c: h.body(c, **{k: v for k, v in bparams.items() if k != "shard"})
    ex = Explorer(body, opts=opts, max_paths=opts.get("max_paths", 1500 if tier == "quick" else 8000), max_depth=opts.get("max_depth", 80),
                  deadline=t_start + budget)
    mods = symnp.kawin_modules()
    hmod = sys.modules.get(h.body.__module__)
    if hmod is not None:
        mods = mods + [hmod]
    try:
        with symnp.installed(mods):
            paths = ex.run()
    except VkError as e:
        res["harness_errors"].append("engine: %s" % e)
        res["harness_errors"].append(traceback.format_exc()[-1500:])
        paths = ex.paths
    res["budget_exhausted"] = ex.budget_exhausted
    res["paths"] = len(paths)
    if ex.budget_exhausted:
        res["inconclusive"] += 1
        res["inconclusive_list"].append({"name": "*", "how": "path/wall budget exhausted with %d scheduled paths unexplored: coverage of this parameter set is incomplete" % len(ex.pending)})
    axioms = set()
    sample_left = 2
    xcheck_pool = []
    for rec in paths:
        ctx = rec["ctx"]
        axioms |= ctx.axioms_used
        res["branch_s"] += ctx.t_branch
        if rec["status"] == "aborted":
            res["paths_aborted"] += 1
            continue
        if rec["status"] == "rejected":
            continue
        # --- reachability twin: the path (with all definitions) must be satisfiable
        model = None
        if rec["status"] == "exception" or opts.get("twin_all", False) or res["paths_reachable"] < 2:
            with symnp.installed(mods):
                core._CUR[0] = ctx
                try:
                    model = solve.path_model(ctx, timeout_s=opts.get("twin_timeout", 8.0))
                    if model is None and res["paths_reachable"] == 0:
                        # no witness yet for this harness: on a loaded machine the twin query can time out; ask once more with a long budget
                        # before the harness is declared vacuous (an unsatisfiable path answers at once, so this costs nothing then)
                        model = solve.path_model(ctx, timeout_s=5.0 * opts.get("twin_timeout", 8.0))
                finally:
                    core._CUR[0] = None
            if model is not None:
                res["paths_reachable"] += 1
        if rec["status"] == "exception":
            res["paths_exception"] += 1
            e = rec["exc"]
            ename = type(e).__name__
            if not isinstance(e, h.allow_exc):
                key = "no_exception:%s" % ename
                res["obligations"] += 1
                bn = res["by_name"].setdefault(key, {"n": 0, "discharged": 0, "violated": 0, "inconclusive": 0})
                bn["n"] += 1
                if model is None:
                    res["inconclusive"] += 1; bn["inconclusive"] += 1
                    res["inconclusive_list"].append({"name": key, "note": "exception path without a model: %s" % str(e)[:200]})
                else:
                    rp = replay_concrete(h, bparams, model)
                    res["candidates"] += 1
                    if rp["exc_type"] == ename:
                        path = write_replay(h, bparams, tier, key, 0, model, "exception")
                        bn["violated"] += 1
                        res["violations"].append({"key": "%s/%s" % (h.id, key), "replay": path, "what": rp["exception"][:300],
                                                  "inputs": {k: _jsonable(v) for k, v in model.items()}, "tb": rec.get("tb", "")[-600:]})
                    else:
                        res["nonrepro"].append({"name": key, "symbolic": "%s: %s" % (ename, str(e)[:200]), "concrete": rp, "tb": rec.get("tb", "")[-1200:]})
        # --- obligations of this path (also those posed before an exception ended it)
        for r in ctx.obligations:
            res["obligations"] += 1
            res["solver_s"] += r.time
            bn = res["by_name"].setdefault(r.name, {"n": 0, "discharged": 0, "violated": 0, "inconclusive": 0})
            bn["n"] += 1
            bn["t"] = round(bn.get("t", 0.0) + r.time, 2)
            if r.status == "discharged":
                res["discharged"] += 1; bn["discharged"] += 1
                hk = r.how.split(" depth")[0]
                res["how"][hk] = res["how"].get(hk, 0) + 1
                if getattr(r, "q", None) is not None and not isinstance(r.q, bool):
                    xcheck_pool.append((ctx, r))
                if sample_left > 0 and getattr(r, "q", None) is not None:
                    try:
                        txt = solve.export_smt2(ctx, r.q)
                        res["samples"].append({"obligation": r.name, "path_decisions": len(ctx.decisions), "how": r.how,
                                               "inputs": ctx.input_order[:12], "smt2_head": txt[:1500]})
                        sample_left -= 1
                    except Exception:
                        pass
            elif r.status == "inconclusive":
                res["inconclusive"] += 1; bn["inconclusive"] += 1
                res["inconclusive_list"].append({"name": r.name, "how": r.how, "time": round(r.time, 2)})
            elif r.status == "cex":
                res["candidates"] += 1
                rp = replay_concrete(h, bparams, r.model)
                if (r.name, r.occ) in rp["violated"] or any(n == r.name for n, _ in rp["violated"]):
                    path = write_replay(h, bparams, tier, r.name, r.occ, r.model, "obligation")
                    bn["violated"] += 1
                    res["violations"].append({"key": "%s/%s" % (h.id, r.name), "replay": path,
                                              "what": "obligation '%s' false on the real code for the solver's inputs" % r.name,
                                              "inputs": {k: _jsonable(v) for k, v in r.model.items()}})
                elif rp["exception"] and not rp["rejected"]:
                    path = write_replay(h, bparams, tier, r.name, r.occ, r.model, "obligation")
                    bn["violated"] += 1
                    res["violations"].append({"key": "%s/%s" % (h.id, r.name), "replay": path,
                                              "what": "real code raised %s on the solver's inputs" % rp["exception"][:200],
                                              "inputs": {k: _jsonable(v) for k, v in r.model.items()}})
                else:
                    # the exact-arithmetic witness did not survive floating point: look for a dyadic one
                    found = False
                    qq = getattr(r, "q", None)
                    retry_budget = res.setdefault("_retries", 0)
                    cands = solve.retry_models(ctx, qq) if retry_budget < 6 else []
                    res["_retries"] = retry_budget + 1
                    for mdl in cands:
                        rp2 = replay_concrete(h, bparams, mdl)
                        if any(n == r.name for n, _ in rp2["violated"]) or (rp2["exception"] and not rp2["rejected"]):
                            path = write_replay(h, bparams, tier, r.name, r.occ, mdl, "obligation")
                            bn["violated"] += 1
                            res["violations"].append({"key": "%s/%s" % (h.id, r.name), "replay": path,
                                                      "what": "obligation '%s' false on the real code (dyadic / margin witness)" % r.name,
                                                      "inputs": {k: _jsonable(v) for k, v in mdl.items()}})
                            found = True
                            break
                    if not found and res.setdefault("_scaled", 0) < 4:
                        # the solver's witness is genuine in exact arithmetic but invisible at its magnitudes in floating point
                        # (tolerance of the replay oracle): look for a reproducing input by re-scaling input groups of the witness
                        res["_scaled"] += 1
                        for mdl in scaled_candidates(r.model):
                            rp2 = replay_concrete(h, bparams, mdl)
                            if any(n == r.name for n, _ in rp2["violated"]):
                                path = write_replay(h, bparams, tier, r.name, r.occ, mdl, "obligation")
                                bn["violated"] += 1
                                res["violations"].append({"key": "%s/%s" % (h.id, r.name), "replay": path,
                                                          "what": "obligation '%s' false on the real code (solver witness re-scaled to a magnitude where floating point shows it)" % r.name,
                                                          "inputs": {k: _jsonable(v) for k, v in mdl.items()}})
                                found = True
                                break
                    if not found:
                        bn["inconclusive"] += 1
                        res["inconclusive"] += 1
                        res["nonrepro"].append({"name": r.name, "concrete": rp, "inputs": {k: _jsonable(v) for k, v in r.model.items()}})
    res["axioms"] = sorted(axioms)
    # --- second solver: a sample of the discharged obligations is re-decided by cvc5 (thorough tier); `sat` = disagreement
    res["cvc5"] = {"checked": 0, "unsat": 0, "unknown": 0, "sat": 0}
    if tier == "thorough" and xcheck_pool and not opts.get("no_cvc5_crosscheck") and not any(d.kind.startswith("uf") is False and False for d in []):
        step = max(1, len(xcheck_pool) // 4)
        for (cx, r) in xcheck_pool[::step][:4]:
            if any(z3.is_fp(v) for v in cx.inputs.values()):
                continue
            try:
                txt = solve.export_smt2(cx, r.q)
            except Exception:
                continue
            verdict = solve.fork_call(lambda: solve.cvc5_check(txt, 15.0), 25.0) or "unknown"
            res["cvc5"]["checked"] += 1
            res["cvc5"][verdict] = res["cvc5"].get(verdict, 0) + 1
            if verdict == "sat":
                res["harness_errors"].append("solver disagreement: z3 discharged '%s' but cvc5 reports sat" % r.name)
    # --- shim validation: concrete run on plain numpy vs. evaluated symbolic terms
    rng = np.random.default_rng(seed)
    nval = h.validate if tier == "quick" else max(h.validate, 2 * h.validate)
    tries = 0
    while res["validated"] < nval and tries < 40 * max(1, nval) and not res["harness_errors"]:
        tries += 1
        try:
            with np.errstate(all="ignore"):
                cctx, _ = run_concrete(body, {}, rng=rng)
        except (Reject, core.PathAbort):
            continue
        except VkError:
            raise
        except Exception as e:
            if isinstance(e, h.allow_exc):
                continue
            # the real code crashed on a random admissible input: report through the symbolic route only
            res["validation_errors"].append("concrete run raised %s: %s" % (type(e).__name__, str(e)[:200]))
            break
        try:
            with symnp.installed(mods):
                pctx, _ = run_concrete(body, cctx.values, mode="pinned", opts=opts)
        except (Reject, core.PathAbort):
            continue
        except Exception as e:
            res["validation_errors"].append("pinned run raised %s: %s" % (type(e).__name__, str(e)[:300]))
            res["validation_errors"].append(traceback.format_exc()[-1200:])
            break
        bad = compare_observed(cctx.observed, pctx.observed)
        if bad:
            res["validation_errors"].append({"inputs": cctx.values, "mismatch": bad[:5]})
            break
        res["validated"] += 1
    res["wall_s"] = time.time() - t_start
    return res


def compare_observed(a, b, rtol=1e-6, atol=1e-12):
    bad = []
    for k in sorted(set(a) | set(b)):
        if k not in a or k not in b:
            bad.append((k, a.get(k, "<missing>"), b.get(k, "<missing>")))
            continue
        x, y = a[k], b[k]
        if isinstance(x, (bool, np.bool_)) or isinstance(y, (bool, np.bool_)) or x is None or y is None:
            if k.startswith("prove:"):
                # tolerance on the concrete side may accept what exact arithmetic rejects: only flag concrete-False/exact-True
                if (not x) and y:
                    bad.append((k, x, y))
            elif x != y:
                bad.append((k, x, y))
            continue
        x = float(x); y = float(y)
        if (np.isnan(x) and np.isnan(y)) or x == y:
            continue
        if np.isnan(x) or np.isnan(y) or abs(x - y) > atol + rtol * max(abs(x), abs(y)):
            bad.append((k, x, y))
    return bad
