"""vk.main -- `python -m vk.main <PROPERTY> [--tier quick|thorough] [--replay file] [--only harness-substring]`

exit 0  nothing violated on what was explored (known findings are printed as KNOWN-FINDING lines)
exit 1  reproduced violation not listed in known_findings.json (prints VIOLATION property=<id> replay=<path>)
exit 3  harness / engine error (vacuous harness, non-reproducing counterexample, facade gap, shim mismatch)
"""
import os, sys, json, time, argparse, importlib, traceback, multiprocessing as mp

VERIF = os.path.dirname(os.path.dirname(os.path.abspath(__file__)))
sys.path.insert(0, VERIF)
REPO = os.environ.get("VK_REPO", "/repo")
if REPO not in sys.path:
    sys.path.insert(0, REPO)
os.environ.setdefault("MPLBACKEND", "Agg")
os.environ["KAWIN_VERIF"] = "1"


def load_harnesses(prop):
    mod = importlib.import_module("harness.%s" % prop.lower())
    return mod.HARNESSES, mod


def _job(args):
    prop, hid, pidx, tier, seed = args[:5]
    shard = args[5] if len(args) > 5 else None
    try:
        hs, _ = load_harnesses(prop)
        h = [x for x in hs if x.id == hid][0]
        params = dict(h.params[tier][pidx])
        if shard is not None:
            o = dict(params.get("_opts", {})); o["shard"] = shard; params["_opts"] = o
        from vk import run
        return run.run_harness(h, params, tier, seed)
    except BaseException as e:
        return {"harness": hid, "params": {}, "harness_errors": ["job crashed: %s: %s" % (type(e).__name__, e), traceback.format_exc()[-2500:]],
                "paths": 0, "paths_reachable": 0, "obligations": 0, "discharged": 0, "inconclusive": 0, "violations": [],
                "nonrepro": [], "validated": 0, "validation_errors": [], "samples": [], "axioms": [], "solver_s": 0.0,
                "branch_s": 0.0, "candidates": 0, "inconclusive_list": [], "how": {}, "paths_aborted": 0,
                "paths_exception": 0, "budget_exhausted": False, "by_name": {}, "wall_s": 0.0}


def load_known():
    p = os.path.join(VERIF, "known_findings.json")
    if not os.path.exists(p):
        return []
    return json.load(open(p)).get("findings", [])


def do_replay(path):
    rec = json.load(open(path))
    hs, _ = load_harnesses(rec["property"])
    h = [x for x in hs if x.id == rec["harness"]][0]
    from vk import run
    run._import_kawin()
    rp = run.replay_concrete(h, rec["params"], rec["inputs"])
    print(json.dumps({"harness": rec["harness"], "obligation": rec["obligation"], "result": rp}, indent=1, default=str))
    bad = any(n == rec["obligation"] for n, _ in rp["violated"]) or (rp["exception"] is not None)
    if bad:
        print("VIOLATION property=%s replay=%s" % (rec["property"], path))
        return 1
    print("replay: obligation holds on the current tree")
    return 0


def main(argv=None):
    ap = argparse.ArgumentParser()
    ap.add_argument("prop")
    ap.add_argument("--tier", default=os.environ.get("VERIF_TIER", "quick"), choices=["quick", "thorough"])
    ap.add_argument("--replay")
    ap.add_argument("--only", default=None)
    ap.add_argument("--jobs", type=int, default=int(os.environ.get("VK_JOBS", "16")))
    ap.add_argument("--no-evidence", action="store_true")
    ap.add_argument("-v", action="store_true")
    a = ap.parse_args(argv)
    prop = a.prop.upper()
    if a.replay:
        return do_replay(a.replay)
    seed = int(os.environ.get("VERIF_SEED", "0") or 0)
    t0 = time.time()
    hs, hmod = load_harnesses(prop)
    jobs = []
    for h in hs:
        if a.only and a.only not in h.id:
            continue
        for i, ps in enumerate(h.params.get(a.tier, h.params.get("quick", [{}]))):
            nsh = int(ps.get("_shards", h.opts.get("shards", 1)))
            if nsh > 1:
                nbits = max(1, (nsh - 1).bit_length())
                for sidx in range(2 ** nbits):
                    jobs.append((prop, h.id, i, a.tier, seed, (sidx, nbits)))
            else:
                jobs.append((prop, h.id, i, a.tier, seed))
    results = []
    ctxm = mp.get_context("fork")
    if a.jobs <= 1 or len(jobs) == 1:
        results = [_job(j) for j in jobs]
    else:
        with ctxm.Pool(min(a.jobs, len(jobs)), maxtasksperchild=1) as pool:
            asyncs = [pool.apply_async(_job, (j,)) for j in jobs]
            hard = max(h.budget.get(a.tier, 90.0) for h in hs) * 2.5 + 120
            for j, ar in zip(jobs, asyncs):
                try:
                    results.append(ar.get(timeout=max(5.0, t0 + hard - time.time())))
                except mp.TimeoutError:
                    r = _job.__wrapped__(j) if hasattr(_job, "__wrapped__") else None
                    results.append({"harness": j[1], "params": {}, "harness_errors": [], "paths": 0, "paths_reachable": 0,
                                    "obligations": 0, "discharged": 0, "inconclusive": 1, "violations": [], "nonrepro": [],
                                    "validated": 0, "validation_errors": [], "samples": [], "axioms": [], "solver_s": 0.0,
                                    "branch_s": 0.0, "candidates": 0,
                                    "inconclusive_list": [{"name": "*", "how": "hard wall-clock limit: job killed"}],
                                    "how": {}, "paths_aborted": 0, "paths_exception": 0, "budget_exhausted": True,
                                    "by_name": {}, "wall_s": hard})
            pool.terminate()
    known = [k for k in load_known() if k.get("property") == prop]
    return report(prop, a.tier, seed, hs, results, known, time.time() - t0, a)


def report(prop, tier, seed, hs, results, known, wall, a):
    from vk import run
    viol_unlisted, viol_known, errors = [], [], []
    tot = {"paths": 0, "reach": 0, "obl": 0, "dis": 0, "inc": 0, "cand": 0, "val": 0, "solver": 0.0, "branch": 0.0}
    known_active = {k["key"]: k for k in known if k.get("status") == "known"}
    for r in results:
        tot["paths"] += r["paths"]; tot["reach"] += r["paths_reachable"]; tot["obl"] += r["obligations"]
        tot["dis"] += r["discharged"]; tot["inc"] += r["inconclusive"]; tot["cand"] += r["candidates"]
        tot["val"] += r["validated"]; tot["solver"] += r["solver_s"]; tot["branch"] += r["branch_s"]
        for v in r["violations"]:
            (viol_known if v["key"] in known_active else viol_unlisted).append(v)
        for e in r["harness_errors"]:
            errors.append("%s: %s" % (r["harness"], e))
        for e in r["validation_errors"]:
            errors.append("%s: shim validation: %s" % (r["harness"], str(e)[:1500]))
        for n in r["nonrepro"]:
            errors.append("%s: counterexample for '%s' did not reproduce on the real code (encoding suspect): %s" % (r["harness"], n["name"], json.dumps(n, default=str)[:700]))
        if r["paths"] > 0 and r["paths_reachable"] == 0 and not r["harness_errors"]:
            errors.append("%s: vacuous -- no path has a satisfiable condition (reachability twin failed)" % r["harness"])
        if r["paths"] == 0 and not r["harness_errors"]:
            errors.append("%s: no path explored" % r["harness"])
    # print
    for r in results:
        line = "%-34s %-28s paths=%d obl=%d ok=%d inc=%d viol=%d val=%d %.1fs" % (
            r["harness"], json.dumps(r["params"], sort_keys=True, default=str)[:28], r["paths"], r["obligations"], r["discharged"],
            r["inconclusive"], len(r["violations"]), r["validated"], r.get("wall_s", 0.0))
        if r.get("budget_exhausted"):
            line += " BUDGET"
        print(line)
        if a.v:
            for k, bn in sorted(r["by_name"].items()):
                print("     %-50s %s" % (k, bn))
        for inc in r["inconclusive_list"][:6]:
            print("   INCONCLUSIVE %s" % json.dumps(inc, default=str)[:300])
    seen = set()
    for v in viol_known:
        if v["key"] in seen:
            continue
        seen.add(v["key"])
        print("KNOWN-FINDING: property=%s %s -- %s (replay=%s)" % (prop, v["key"], known_active[v["key"]].get("what", ""), v["replay"]))
    for e in errors[:12]:
        print("HARNESS-ERROR %s" % e)
    if len(errors) > 12:
        print("HARNESS-ERROR ... and %d more" % (len(errors) - 12))
    seen = set()
    for v in viol_unlisted:
        if v["key"] in seen:
            continue
        seen.add(v["key"])
        print("  violated: %s -- %s" % (v["key"], v["what"]))
        if a.v:
            print("     inputs: %s" % json.dumps(v["inputs"], default=str)[:1000])
        print("VIOLATION property=%s replay=%s" % (prop, v["replay"]))
    # evidence
    if not a.no_evidence and not a.only:
        write_evidence(prop, tier, seed, hs, results, known, viol_unlisted, viol_known, errors, tot, wall)
    cv = {"checked": 0, "unsat": 0, "unknown": 0, "sat": 0}
    for r in results:
        for k in cv:
            cv[k] += r.get("cvc5", {}).get(k, 0)
    if cv["checked"]:
        print("cvc5 cross-check of sampled discharged obligations: %s" % cv)
    print("%s %s: paths=%d reachable-checked=%d obligations=%d discharged=%d inconclusive=%d candidates=%d validated=%d solver=%.1fs wall=%.1fs" % (
        prop, tier, tot["paths"], tot["reach"], tot["obl"], tot["dis"], tot["inc"], tot["cand"], tot["val"], tot["solver"], wall))
    if viol_unlisted:
        return 1
    if errors:
        return 3
    return 0


def write_evidence(prop, tier, seed, hs, results, known, viol_unlisted, viol_known, errors, tot, wall):
    from vk import run
    funcs, stubs, assumptions, bounds, docs = [], [], [], {}, {}
    seenf = set()
    for h in hs:
        for f in h.functions:
            s = run.func_sig(f)
            if s["function"] not in seenf:
                seenf.add(s["function"]); funcs.append(s)
        for s in h.stubs:
            if s not in stubs: stubs.append(s)
        for s in h.assumptions:
            if s not in assumptions: assumptions.append(s)
        bounds[h.id] = {"bounds": h.bounds, "params": h.params.get(tier, [])}
        docs[h.id] = h.doc
    axioms = sorted({x for r in results for x in r["axioms"]})
    samples = []
    for r in results:
        for s in r["samples"][:1]:
            samples.append({"harness": r["harness"], "params": r["params"], **s})
    if not samples:
        samples = [{"harness": r["harness"], "params": r["params"], "by_name": r["by_name"]} for r in results[:3]]
    per_h = [{"harness": r["harness"], "params": r["params"], "paths": r["paths"], "paths_aborted": r["paths_aborted"],
              "paths_exception": r["paths_exception"], "obligations": r["obligations"], "discharged": r["discharged"],
              "inconclusive": r["inconclusive"], "violations": [v["key"] for v in r["violations"]],
              "validated_samples": r["validated"], "how": r["how"], "by_obligation": r["by_name"],
              "solver_s": round(r["solver_s"], 2), "branch_s": round(r["branch_s"], 2), "wall_s": round(r.get("wall_s", 0), 2),
              "budget_exhausted": r.get("budget_exhausted", False), "cvc5_crosscheck": r.get("cvc5", {}),
              "inconclusive_detail": r["inconclusive_list"][:10]} for r in results]
    distinct = len({(r["harness"], json.dumps(r["params"], sort_keys=True, default=str), k) for r in results for k in r["by_name"]})
    ev = {
        "property_id": prop, "tier": tier, "seed": seed, "level": "other",
        "coverage": {
            "explanation": "Bounded symbolic verification: the listed real kawin functions are executed on numpy object arrays of "
                           "z3-backed proxies (vk.symnp), every Python-level branch is followed by a DFS path explorer with solver-"
                           "checked feasibility (vk.core), and each property clause is an SMT obligation  pre & path & defs |- Q  "
                           "decided by z3 (cvc5 as fallback); unsat = holds for all values inside the bounds, sat = concrete inputs "
                           "that are replayed on the unpatched code before a VIOLATION is reported; unknown/time-out = inconclusive, "
                           "never success. Counts below are measured on this run.",
            "obligations": tot["obl"], "discharged": tot["dis"], "inconclusive": tot["inc"],
            "evaluations": tot["paths"], "distinct_nontrivial": distinct,
            "rule": "one evaluation = one explored execution path of a harness; distinct_nontrivial counts distinct (harness, parameter set, obligation name) triples that were posed to the solver",
            "paths_explored": tot["paths"], "paths_reachability_checked_sat": tot["reach"], "counterexample_candidates": tot["cand"],
            "traces_validated_against_impl": tot["val"],
            "functions_encoded": funcs, "bounds": bounds, "harness_docs": docs, "stubs": stubs, "axioms_used": axioms,
            "solver_time_s": round(tot["solver"], 2), "branch_feasibility_time_s": round(tot["branch"], 2),
            "solvers": ["z3 " + __import__("z3").get_version_string(), "cvc5 (wheel) fallback for unknown"],
            "per_harness": per_h, "samples": samples,
            "known_findings_reported": sorted({v["key"] for v in viol_known}),
            "unlisted_violations": sorted({v["key"] for v in viol_unlisted}),
            "harness_errors": errors[:20],
            "exhaustive": False,
        },
        "assumptions": assumptions + ["real arithmetic stands in for IEEE doubles unless a harness says FP", "bounds as listed per harness; nothing is claimed outside them"],
        "wall_s": round(wall, 2),
        "violations": len({v["key"] for v in viol_unlisted}),
    }
    os.makedirs(os.path.join(VERIF, "evidence"), exist_ok=True)
    with open(os.path.join(VERIF, "evidence", "%s.json" % prop), "w") as f:
        json.dump(ev, f, indent=1, default=str)


if __name__ == "__main__":
    sys.exit(main())
