"""vk.core -- symbolic scalars, per-path context, path explorer.

The real kawin code is executed on numpy *object* arrays (see vk.symnp) whose
elements are the proxies defined here.  Every proxy wraps a z3 term.  Control
flow of the real code is followed by `SymBool.__bool__`, which asks the active
`Ctx` for a decision; the `Explorer` re-runs the harness once per decision
prefix (DFS).

Three execution modes share one harness body:
  symbolic : inputs are fresh z3 constants, obligations go to the solver
  pinned   : as symbolic, but every input has a concrete value too; decisions
             follow the value, terms are evaluated (translation validation of
             the facade against the plain-numpy run)
  concrete : inputs are Python floats, kawin runs on plain numpy; used for the
             reference side of shim validation and for *replay* of a model.
"""
import math, time, itertools, hashlib, numbers
from fractions import Fraction
import numpy as _np
import z3

import os as _os
_DEBUG = bool(_os.environ.get("VK_DEBUG"))
NAME_THRESHOLD = 14          # term nodes above which a scalar is named
BRANCH_TIMEOUT_MS = 1500


class VkError(Exception):
    """harness / engine error (never a verdict)"""


class FacadeMissing(VkError):
    pass


class PathAbort(BaseException):
    """abandon current path (budget); BaseException so kawin's `except Exception` cannot eat it"""


class Reject(BaseException):
    """concrete/pinned sample does not satisfy an assumption"""


_CUR = [None]


def cur():
    c = _CUR[0]
    if c is None:
        raise VkError("no active vk context")
    return c


# --------------------------------------------------------------------------- numbers

def frac_of(x):
    """exact-ish rational for a python/numpy number (shortest decimal repr of the double)"""
    if isinstance(x, Fraction):
        return x
    if isinstance(x, (bool, _np.bool_)):
        return Fraction(int(x))
    if isinstance(x, (int, _np.integer)):
        return Fraction(int(x))
    f = float(x)
    if math.isnan(f) or math.isinf(f):
        raise VkError("non-finite constant %r reached Real-mode arithmetic" % (x,))
    return Fraction(repr(f))


def rv(x):
    fr = frac_of(x)
    if fr.denominator == 1:
        return z3.RealVal(fr.numerator)
    return z3.RealVal(str(fr))


def is_num(x):
    return isinstance(x, (numbers.Real, _np.floating, _np.integer, _np.bool_)) and not isinstance(x, (SymReal, SymBool))


def z3num_to_frac(v):
    """z3 numeral (rational or algebraic) -> Fraction"""
    if z3.is_rational_value(v):
        return Fraction(v.numerator_as_long(), v.denominator_as_long())
    if z3.is_algebraic_value(v):
        a = v.approx(30)
        return Fraction(a.numerator_as_long(), a.denominator_as_long())
    if z3.is_int_value(v):
        return Fraction(v.as_long())
    raise VkError("not a numeral: %s" % v)


# --------------------------------------------------------------------------- proxies

class SymBool:
    __slots__ = ("t",)

    def __init__(self, t):
        self.t = t

    def __bool__(self):
        return cur().decide(self.t)

    def __and__(self, o):
        return mk_bool(z3.And(self.t, b2z(o)))
    __rand__ = __and__

    def __or__(self, o):
        return mk_bool(z3.Or(self.t, b2z(o)))
    __ror__ = __or__

    def __xor__(self, o):
        return mk_bool(z3.Xor(self.t, b2z(o)))
    __rxor__ = __xor__

    def __invert__(self):
        return mk_bool(z3.Not(self.t))

    def __int__(self):
        return int(bool(self))           # forks

    def __index__(self):
        return int(bool(self))

    def __eq__(self, o):
        return mk_bool(self.t == b2z(o))

    def __ne__(self, o):
        return mk_bool(self.t != b2z(o))

    __hash__ = object.__hash__

    # numpy treats bools as 0/1 in arithmetic (e.g. 1 - mask, x * mask)
    def _asreal(self):
        return SymReal(z3.If(self.t, z3.RealVal(1), z3.RealVal(0)), 3)

    def __add__(self, o): return self._asreal() + o
    def __radd__(self, o): return o + self._asreal()
    def __sub__(self, o): return self._asreal() - o
    def __rsub__(self, o): return o - self._asreal()
    def __mul__(self, o): return self._asreal() * o
    def __rmul__(self, o): return o * self._asreal()

    def __repr__(self):
        return "SymBool(%s)" % str(self.t)[:80]


def b2z(o):
    if isinstance(o, SymBool):
        return o.t
    if isinstance(o, (bool, _np.bool_)):
        return z3.BoolVal(bool(o))
    if isinstance(o, z3.BoolRef):
        return o
    raise VkError("cannot use %r as boolean term" % (o,))


def mk_bool(t):
    """collapse syntactically concrete booleans to python bool"""
    if z3.is_true(t):
        return True
    if z3.is_false(t):
        return False
    s = z3.simplify(t)
    if z3.is_true(s):
        return True
    if z3.is_false(s):
        return False
    return SymBool(s)


class SymReal:
    """real-valued proxy.  `t` z3 Real term, `sz` node-count estimate"""
    __slots__ = ("t", "sz")

    def __init__(self, t, sz=1):
        self.t = t
        self.sz = sz

    # -- helpers
    @staticmethod
    def lift(x):
        if isinstance(x, SymReal):
            return x
        if isinstance(x, SymBool):
            return x._asreal()
        if is_num(x):
            return SymReal(rv(x), 1)
        return None

    def _bin(self, o, op):
        b = SymReal.lift(o)
        if b is None:
            return NotImplemented
        return cur().arith(op, self, b)

    def _rbin(self, o, op):
        b = SymReal.lift(o)
        if b is None:
            return NotImplemented
        return cur().arith(op, b, self)

    def __add__(self, o): return self._bin(o, "+")
    def __radd__(self, o): return self._rbin(o, "+")
    def __sub__(self, o): return self._bin(o, "-")
    def __rsub__(self, o): return self._rbin(o, "-")
    def __mul__(self, o): return self._bin(o, "*")
    def __rmul__(self, o): return self._rbin(o, "*")
    def __truediv__(self, o):
        if is_num(o) and isinstance(o, (float, _np.floating)) and math.isinf(float(o)):
            return SymReal(z3.RealVal(0), 1)      # finite / +-inf = 0 exactly
        return self._bin(o, "/")
    def __rtruediv__(self, o): return self._rbin(o, "/")

    def __neg__(self):
        return cur().named(SymReal(-self.t, self.sz + 1))

    def __pos__(self):
        return self

    def __abs__(self):
        return cur().ite(self >= 0, self, -self)

    def __pow__(self, e):
        return cur().power(self, e)

    def __rpow__(self, b):
        return cur().power(SymReal.lift(b), self)

    def _cmp(self, o, op):
        if is_num(o) and isinstance(o, (float, _np.floating)) and math.isinf(float(o)):
            pos = float(o) > 0          # a symbolic real is finite: x < +inf, x > -inf
            return {"<": pos, "<=": pos, ">": not pos, ">=": not pos, "==": False, "!=": True}[op]
        b = SymReal.lift(o)
        if b is None:
            return NotImplemented
        a, b = self.t, b.t
        if op == "<": t = a < b
        elif op == "<=": t = a <= b
        elif op == ">": t = a > b
        elif op == ">=": t = a >= b
        elif op == "==": t = a == b
        else: t = a != b
        return mk_bool(t)

    def __lt__(self, o): return self._cmp(o, "<")
    def __le__(self, o): return self._cmp(o, "<=")
    def __gt__(self, o): return self._cmp(o, ">")
    def __ge__(self, o): return self._cmp(o, ">=")
    def __eq__(self, o): return self._cmp(o, "==")
    def __ne__(self, o): return self._cmp(o, "!=")
    __hash__ = object.__hash__

    def __bool__(self):
        r = (self != 0)
        return bool(r)

    def _const(self):
        s = z3.simplify(self.t)
        if z3.is_rational_value(s):
            return Fraction(s.numerator_as_long(), s.denominator_as_long())
        return None

    def __float__(self):
        c = self._const()
        if c is None:
            raise VkError("float() of a symbolic value (the code realises a symbolic scalar): %s" % str(self.t)[:100])
        return float(c)

    def __int__(self):
        c = self._const()
        if c is None:
            raise VkError("int() of a symbolic value")
        return int(c)

    __index__ = None

    # numpy object-dtype ufunc loops call methods of these names on the elements
    def sqrt(self): return cur().sqrt(self)
    def cbrt(self): return cur().cbrt(self)
    def exp(self): return cur().uf1("exp", self)
    def log(self): return cur().uf1("log", self)
    def log10(self): return cur().uf1("log10", self)
    def sin(self): return cur().uf1("sin", self)
    def cos(self): return cur().uf1("cos", self)
    def arcsin(self): return cur().uf1("arcsin", self)
    def arccos(self): return cur().uf1("arccos", self)
    def conjugate(self): return self

    def __format__(self, spec):
        # output formatting (print / log messages) is not part of any claim: a placeholder text
        return "<sym>"

    def __repr__(self):
        return "SymReal(%s)" % str(self.t)[:80]


def is_sym(x):
    return isinstance(x, (SymReal, SymBool))


def _is_fp(x):
    return x.__class__.__name__ == "SymFP"


def _fplift(x):
    from . import fp as _fp
    return _fp.SymFP.lift(x)


def _uf_default(name, fargs, rng):
    """fixed smooth pseudo-random function used for uninterpreted backends in concrete / pinned runs"""
    h = int(hashlib.sha1(name.encode()).hexdigest()[:8], 16)
    acc = (h % 1000) / 1000.0
    for i, a in enumerate(fargs):
        acc += math.sin((i + 1.37) * a + (h % 97) * 0.1 * (i + 1))
    lo, hi = rng
    return round(lo + (hi - lo) * (0.5 + 0.5 * math.sin(acc * 1.7 + 0.3)), 9)


# --------------------------------------------------------------------------- definitions

class Def:
    """a fresh variable introduced on a path together with its defining constraint"""
    __slots__ = ("var", "kind", "args", "cons", "inl", "deps", "idx", "safety")

    def __init__(self, var, kind, args, cons, inl=None):
        self.var = var        # z3 const
        self.kind = kind      # name | quot | sqrt | cbrt | uf:<f> | free
        self.args = args      # z3 terms the value is computed from
        self.cons = cons      # list of z3 bool constraints tying var to args
        self.inl = inl        # term to substitute in the inlined encoding (None: keep var+cons)


def term_vars(t, acc=None):
    """ids of uninterpreted constants in t"""
    if acc is None:
        acc = {}
    seen = set()
    stack = [t]
    while stack:
        e = stack.pop()
        i = e.get_id()
        if i in seen:
            continue
        seen.add(i)
        if z3.is_const(e):
            if e.decl().kind() == z3.Z3_OP_UNINTERPRETED:
                acc[i] = e
        else:
            stack.extend(e.children())
    return acc


# --------------------------------------------------------------------------- context

class Ctx:
    """state of one execution of a harness body"""

    def __init__(self, mode, prefix=(), values=None, opts=None, explorer=None, rng=None):
        self.rng = rng
        self.mode = mode                    # symbolic | pinned | concrete
        self.prefix = list(prefix)
        self.values = values or {}          # name -> float (pinned/concrete)
        self.opts = opts or {}
        self.explorer = explorer
        self.decisions = []                 # list of (z3 cond, bool taken, forked)
        self.pre = []                       # assumed z3 bools (preconditions / stub contracts)
        self.defs = []                      # Def objects in creation order
        self.defmap = {}                    # var id -> Def
        self.inputs = {}                    # name -> z3 const   (symbolic/pinned)
        self.input_order = []
        self.safety = []                    # (z3 cond that must hold, description, n_defs_at_creation)
        self.obligations = []               # results appended by prove()
        self.observed = {}                  # name -> value (concrete float / z3 term)
        self.axioms_used = set()
        self._quot = {}
        self._ufapps = {}                   # fname -> list of (argterms, var)
        self._named = {}
        self._ctr = itertools.count()
        self.pin = {}                       # var id -> Fraction   (pinned mode)
        self._pin_pairs = []
        self.name_threshold = self.opts.get("name_threshold", NAME_THRESHOLD)
        self.fold_ite = self.opts.get("fold_ite", False)
        self.solver = None
        self.t_branch = 0.0
        self.n_branch_checks = 0
        self.unknown_branches = 0
        self._std_hyps = None
        self.pending = []
        self.uf_records = []
        self._bool_decided = {}
        self._names_seen = set()
        self._bool_in_pre = set()
        if mode == "symbolic":
            self.solver = z3.Solver()
            self.solver.set("timeout", self.opts.get("branch_timeout_ms", BRANCH_TIMEOUT_MS))

    # ------------------------------------------------------------------ inputs
    def real(self, name, sample=(0.1, 2.0)):
        """a symbolic real input.  `sample`: range used to draw concrete values for validation"""
        if self.mode == "concrete":
            if name not in self.values:
                lo, hi = sample
                if self.rng is None:
                    # replay of a model taken before this input existed (the obligation was flushed earlier): any admissible value will do
                    self.values[name] = 0.5 * (lo + hi)
                else:
                    self.values[name] = float(self.rng.uniform(lo, hi))
            if name in self._names_seen:
                raise VkError("duplicate input name %r (two inputs would be aliased)" % name)
            self._names_seen.add(name)
            self.input_order.append(name)
            return float(self.values[name])
        if name in self._names_seen:
            raise VkError("duplicate input name %r (two inputs would be aliased)" % name)
        self._names_seen.add(name)
        v = z3.Real(name)
        self.inputs[name] = v
        self.input_order.append(name)
        if self.mode == "pinned":
            self._setpin(v, Fraction(float(self.values[name])))
        return SymReal(v, 1)

    def reals(self, name, shape, sample=(0.1, 2.0)):
        from . import symnp
        shape = (shape,) if isinstance(shape, int) else tuple(shape)
        n = int(_np.prod(shape)) if shape else 1
        items = [self.real("%s[%s]" % (name, ",".join(map(str, idx))), sample) for idx in _np.ndindex(*shape)]
        if self.mode == "concrete":
            return _np.array(items, dtype=float).reshape(shape)
        a = _np.empty(n, dtype=object)
        for i, it in enumerate(items):
            a[i] = it
        return a.reshape(shape).view(symnp.SymArray)

    def boolean(self, name):
        if self.mode == "concrete":
            if name not in self.values:
                self.values[name] = bool(self.rng.integers(0, 2)) if self.rng is not None else False
            self.input_order.append(name)
            return bool(self.values[name])
        v = z3.Bool(name)
        self.inputs[name] = v
        self.input_order.append(name)
        if self.mode == "pinned":
            self.pin[v.get_id()] = bool(self.values[name])
            self._pin_pairs.append((v, z3.BoolVal(bool(self.values[name]))))
        return SymBool(v)

    def const(self, x):
        """lift a python number so that harness-side reference formulas work in all modes"""
        if self.mode == "concrete":
            return float(x)
        return SymReal(rv(x), 1)

    # ------------------------------------------------------------------ pinned evaluation
    def _setpin(self, var, val):
        self.pin[var.get_id()] = val
        self._pin_pairs.append((var, rv(val)))

    def evalz(self, t):
        """value of a z3 term under the pinned assignment (pinned mode only)"""
        s = z3.simplify(z3.substitute(t, *self._pin_pairs)) if self._pin_pairs else z3.simplify(t)
        if z3.is_true(s):
            return True
        if z3.is_false(s):
            return False
        if z3.is_rational_value(s) or z3.is_algebraic_value(s):
            return z3num_to_frac(s)
        if z3.is_fp_value(s):
            from . import fp as _fp
            return _fp.fpval_to_float(s)
        raise VkError("pinned evaluation did not reduce: %s" % str(s)[:200])

    # ------------------------------------------------------------------ assumptions
    def assume(self, c, why=""):
        """precondition / contract of a stub.  Must be placed before the code it constrains."""
        if isinstance(c, (bool, _np.bool_)):
            if not c:
                raise Reject(why)
            return
        if self.mode == "concrete":
            if not bool(c):
                raise Reject(why)
            return
        t = b2z(c)
        if self.mode == "pinned":
            if not self.evalz(t):
                raise Reject(why)
        if self.pending:
            from . import solve
            solve.flush(self)          # assumptions are not retroactive
        for vid, v in term_vars(t).items():
            if z3.is_bool(v):
                self._bool_in_pre.add(vid)
        self.pre.append(t)
        if self.solver is not None:
            self.solver.add(t)

    # ------------------------------------------------------------------ decisions
    def decide(self, t):
        if self.mode == "concrete":
            raise VkError("symbolic decision in concrete mode")
        if self.mode == "pinned":
            v = bool(self.evalz(t))
            self.decisions.append((t, v, False))
            return v
        k = len(self.decisions)
        ex = self.explorer
        if k < len(self.prefix):
            v = self.prefix[k]
            self.decisions.append((t, v, True))
            self.solver.add(t if v else z3.Not(t))
            if z3.is_const(t) and t.decl().kind() == z3.Z3_OP_UNINTERPRETED:
                self._bool_decided[t.get_id()] = v
            return v
        if ex is not None:
            ex.check_budget()
        # a free boolean input (fault bit, option switch) that no assumption mentions: both sides are feasible
        if z3.is_const(t) and t.decl().kind() == z3.Z3_OP_UNINTERPRETED:
            tid = t.get_id()
            if tid in self._bool_decided:
                v = self._bool_decided[tid]
                self.decisions.append((t, v, False))
                return v
            if tid not in self._bool_in_pre:
                v = self._fork(t)
                self._bool_decided[tid] = v
                return v
        t0 = time.time()
        self.n_branch_checks += 1
        r_true = self.solver.check(t)
        if r_true == z3.unsat:
            self.t_branch += time.time() - t0
            self.decisions.append((t, False, False))
            self.solver.add(z3.Not(t))
            return False
        r_false = self.solver.check(z3.Not(t))
        self.t_branch += time.time() - t0
        if r_false == z3.unsat:
            self.decisions.append((t, True, False))
            self.solver.add(t)
            return True
        if r_true == z3.unknown or r_false == z3.unknown:
            self.unknown_branches += 1
        if _DEBUG and time.time() - t0 > 0.4:
            import traceback
            fr = [f for f in traceback.extract_stack() if "/repo/" in f.filename or "/harness/" in f.filename][-2:]
            print("SLOW-DECISION %.2fs %s %s :: %s" % (time.time() - t0, r_true, r_false, " <- ".join("%s:%d" % (f.filename.split("/")[-1], f.lineno) for f in fr)), str(t)[:150].replace("\n", " "), flush=True)
        # genuine (or undecided) fork: take True now, schedule False
        return self._fork(t)

    def _fork(self, t):
        """both sides of t are (or may be) feasible: take one now, schedule the other -- unless this execution is a shard that
        owns only one side of its first `nbits` forks"""
        ex = self.explorer
        sh = self.opts.get("shard")
        nf = sum(1 for d in self.decisions if d[2])
        if sh is not None and nf < sh[1]:
            v = bool((sh[0] >> nf) & 1)
            self.decisions.append((t, v, True))
            self.solver.add(t if v else z3.Not(t))
            return v
        if ex is not None:
            if len(self.decisions) >= ex.max_depth:
                raise PathAbort("decision depth budget")
            ex.schedule([d[1] for d in self.decisions] + [False])
        self.decisions.append((t, True, True))
        self.solver.add(t)
        return True

    def path_cond(self):
        return [(d[0] if d[1] else z3.Not(d[0])) for d in self.decisions]

    def implied(self, t, timeout_ms=60):
        """True / False if the path context already decides t, else None (cheap check)"""
        if self.mode != "symbolic":
            return None
        self.solver.set("timeout", timeout_ms)
        try:
            if self.solver.check(z3.Not(t)) == z3.unsat:
                return True
            if self.solver.check(t) == z3.unsat:
                return False
        finally:
            self.solver.set("timeout", self.opts.get("branch_timeout_ms", BRANCH_TIMEOUT_MS))
        return None

    # ------------------------------------------------------------------ term construction
    def fresh(self, base):
        return z3.Real("%s!%d" % (base, next(self._ctr)))

    def add_def(self, d):
        d.idx = len(self.defs)
        self.defs.append(d)
        self.defmap[d.var.get_id()] = d
        if self.solver is not None and self.opts.get("feas_defs", True):
            for c in d.cons:
                self.solver.add(c)

    def named(self, x):
        if x.sz <= self.name_threshold or self.mode == "concrete":
            return x
        key = x.t.get_id()
        v = self._named.get(key)
        if v is None:
            v = self.fresh("n")
            self._named[key] = v
            self.add_def(Def(v, "name", [x.t], [v == x.t], inl=x.t))
            if self.mode == "pinned":
                self._setpin(v, self.evalz(x.t))
        return SymReal(v, 1)

    def arith(self, op, a, b):
        if op == "+":
            r = SymReal(a.t + b.t, a.sz + b.sz + 1)
        elif op == "-":
            r = SymReal(a.t - b.t, a.sz + b.sz + 1)
        elif op == "*":
            r = SymReal(a.t * b.t, a.sz + b.sz + 1)
        elif op == "/":
            return self.div(a, b)
        else:
            raise VkError(op)
        return self.named(r)

    def div(self, a, b):
        bc = b._const() if b.sz <= 60 else None      # e.g. (1 - x) + x: a divisor that is a constant after simplification
        if bc is not None:
            if bc == 0:
                self.safety.append((z3.BoolVal(False), "division by the constant 0", len(self.defs)))
                return SymReal(self.fresh("divzero"), 1)
            return self.named(SymReal(a.t * rv(1 / bc), a.sz + 2))
        key = (a.t.get_id(), b.t.get_id())
        q = self._quot.get(key)
        if q is None:
            q = self.fresh("q")
            self._quot[key] = q
            self.safety.append((b.t != 0, "divisor != 0", len(self.defs)))
            self.add_def(Def(q, "quot", [a.t, b.t], [q * b.t == a.t], inl=a.t / b.t))
            if self.mode == "pinned":
                den = self.evalz(b.t)
                if den == 0:
                    raise Reject("pinned sample divides by zero")
                self._setpin(q, self.evalz(a.t) / den)
        return SymReal(q, 1)

    def sqrt(self, a):
        a = SymReal.lift(a)
        c = a._const() if a.sz <= 3 else None
        if c is not None and c >= 0:
            r = Fraction(math.isqrt(c.numerator)) / Fraction(math.isqrt(c.denominator))
            if r * r == c:
                return SymReal(rv(r), 1)
        key = ("sqrt", a.t.get_id())
        y = self._quot.get(key)
        if y is None:
            y = self.fresh("sqrt")
            self._quot[key] = y
            self.safety.append((a.t >= 0, "sqrt argument >= 0", len(self.defs)))
            self.add_def(Def(y, "sqrt", [a.t], [y >= 0, y * y == a.t]))
            if self.mode == "pinned":
                v = self.evalz(a.t)
                if v < 0:
                    raise Reject("pinned sqrt of negative")
                self._setpin(y, Fraction(math.sqrt(float(v))))
        return SymReal(y, 1)

    def cbrt(self, a):
        a = SymReal.lift(a)
        key = ("cbrt", a.t.get_id())
        y = self._quot.get(key)
        if y is None:
            y = self.fresh("cbrt")
            self._quot[key] = y
            # sign agreement makes the real cube root unique
            self.add_def(Def(y, "cbrt", [a.t], [y * y * y == a.t]))
            if self.mode == "pinned":
                v = float(self.evalz(a.t))
                self._setpin(y, Fraction(math.copysign(abs(v) ** (1.0 / 3.0), v)))
        return SymReal(y, 1)

    def power(self, a, e):
        a = SymReal.lift(a)
        if isinstance(e, SymReal):
            ec = e._const()
        elif is_num(e):
            ec = frac_of(e)
        else:
            return NotImplemented
        if ec is not None:
            if ec.denominator == 1 and abs(ec.numerator) <= 8:
                n = ec.numerator
                if n == 0:
                    return SymReal(z3.RealVal(1), 1)
                r = a
                for _ in range(abs(n) - 1):
                    r = self.arith("*", r, a)
                if n < 0:
                    r = self.div(SymReal(z3.RealVal(1), 1), r)
                return r
            if ec == Fraction(1, 2):
                return self.sqrt(a)
            if ec == Fraction(-1, 2):
                return self.div(SymReal(z3.RealVal(1), 1), self.sqrt(a))
            if ec == Fraction(3, 2):
                return self.arith("*", a, self.sqrt(a))
            if ec == Fraction(1, 3) or abs(ec - Fraction(1, 3)) < Fraction(1, 10**15):
                return self.cbrt(a)
            if ec == Fraction(2, 3) or abs(ec - Fraction(2, 3)) < Fraction(1, 10**15):
                c = self.cbrt(a)
                return self.arith("*", c, c)
            e = SymReal(rv(ec), 1)
        return self.uf2("pow", a, e)

    # -- uninterpreted functions with ground axiom instances
    _MATH = {"exp": math.exp, "log": math.log, "log10": math.log10, "sin": math.sin, "cos": math.cos,
             "arcsin": math.asin, "arccos": math.acos, "erfc": math.erfc}

    def uf1(self, f, a):
        a = SymReal.lift(a)
        c = a._const() if a.sz <= 3 else None
        if c is not None:
            if f == "exp" and c == 0: return SymReal(z3.RealVal(1), 1)
            if f in ("log", "log10") and c == 1: return SymReal(z3.RealVal(0), 1)
            if f in ("sin", "arcsin") and c == 0: return SymReal(z3.RealVal(0), 1)
            if f == "cos" and c == 0: return SymReal(z3.RealVal(1), 1)
        apps = self._ufapps.setdefault(f, [])
        for (at, v) in apps:
            if at.get_id() == a.t.get_id():
                return SymReal(v, 1)
        y = self.fresh(f)
        cons = []
        # contract axioms (ground instances)
        if f == "exp":
            cons.append(y > 0); self.axioms_used.add("exp(x) > 0")
        if f in ("log", "log10"):
            self.safety.append((a.t > 0, "%s argument > 0" % f, len(self.defs)))
        if f in ("arcsin", "arccos"):
            self.safety.append((z3.And(a.t >= -1, a.t <= 1), "%s argument in [-1,1]" % f, len(self.defs)))
        if f in ("sin", "cos"):
            cons.append(z3.And(y >= -1, y <= 1)); self.axioms_used.add("|%s(x)| <= 1" % f)
        if f == "erfc":
            cons.append(z3.And(y >= 0, y <= 2)); self.axioms_used.add("0 <= erfc(x) <= 2")
        pi = (self.pi().t if self.opts.get("symbolic_pi", False) else rv(math.pi)) if f in ("arcsin", "arccos") else None
        if f == "arccos":
            cons.append(z3.And(y >= 0, y <= pi)); self.axioms_used.add("0 <= arccos(x) <= pi")
        if f == "arcsin":
            cons.append(z3.And(2 * y >= -pi, 2 * y <= pi)); self.axioms_used.add("|arcsin(x)| <= pi/2")
        for (at, v) in apps:
            cons.append(z3.Implies(at == a.t, v == y)); self.axioms_used.add("%s congruence" % f)
            if f in ("exp", "log", "log10", "arcsin"):
                cons.append(z3.Implies(at < a.t, v < y)); cons.append(z3.Implies(at > a.t, v > y))
                self.axioms_used.add("%s strictly increasing" % f)
            if f in ("arccos", "erfc"):
                cons.append(z3.Implies(at < a.t, v > y)); cons.append(z3.Implies(at > a.t, v < y))
                self.axioms_used.add("%s strictly decreasing" % f)
        if f == "exp":
            cons.append(z3.Implies(a.t == 0, y == 1)); cons.append(z3.Implies(a.t < 0, y < 1)); cons.append(z3.Implies(a.t > 0, y > 1))
            cons.append(y >= 1 + a.t)
            self.axioms_used.add("exp(0)=1, exp(x) >= 1+x")
        if f in ("log", "log10"):
            cons.append(z3.Implies(a.t == 1, y == 0)); cons.append(z3.Implies(a.t < 1, y < 0)); cons.append(z3.Implies(a.t > 1, y > 0))
            self.axioms_used.add("%s(1)=0" % f)
        # arcsin/arccos relation for equal arguments
        if f in ("arcsin", "arccos"):
            other = "arccos" if f == "arcsin" else "arcsin"
            for (at, v) in self._ufapps.get(other, []):
                cons.append(z3.Implies(at == a.t, 2 * (v + y) == pi))
                self.axioms_used.add("arcsin(x) + arccos(x) = pi/2")
        if f in ("sin", "cos"):
            other = "cos" if f == "sin" else "sin"
            for (at, v) in self._ufapps.get(other, []):
                cons.append(z3.Implies(at == a.t, v * v + y * y == 1))
                self.axioms_used.add("sin^2 + cos^2 = 1")
        apps.append((a.t, y))
        self.add_def(Def(y, "uf:" + f, [a.t], cons))
        if self.mode == "pinned":
            v = float(self.evalz(a.t))
            try:
                self._setpin(y, Fraction(self._MATH[f](v)))
            except ValueError:
                raise Reject("pinned %s domain" % f)
        return SymReal(y, 1)

    def uf2(self, f, a, b):
        """pow(a, b) as uninterpreted function with contract axioms"""
        a = SymReal.lift(a); b = SymReal.lift(b)
        apps = self._ufapps.setdefault(f, [])
        for (at, bt, v) in apps:
            if at.get_id() == a.t.get_id() and bt.get_id() == b.t.get_id():
                return SymReal(v, 1)
        y = self.fresh(f)
        cons = []
        if f == "pow":
            cons.append(z3.Implies(a.t > 0, y > 0))
            cons.append(z3.Implies(z3.And(a.t == 0, b.t > 0), y == 0))
            cons.append(z3.Implies(b.t == 1, y == a.t))
            cons.append(z3.Implies(b.t == 0, y == 1))
            cons.append(z3.Implies(a.t == 1, y == 1))
            cons.append(z3.Implies(z3.And(a.t > 1, b.t > 0), y > 1))
            cons.append(z3.Implies(z3.And(a.t > 0, a.t < 1, b.t > 0), y < 1))
            cons.append(z3.Implies(z3.And(a.t > 1, b.t < 0), y < 1))
            self.axioms_used.add("pow: positivity, pow(x,1)=x, pow(x,0)=1, pow(1,e)=1, side of 1")
            self.safety.append((z3.Or(a.t > 0, z3.And(a.t == 0, b.t > 0), b.t == 0), "pow base/exponent domain", len(self.defs)))
            for (at, bt, v) in apps:
                cons.append(z3.Implies(z3.And(at == a.t, bt == b.t), v == y))
                # monotone in base for equal positive exponent
                cons.append(z3.Implies(z3.And(bt == b.t, b.t > 0, at >= 0, a.t >= 0, at < a.t), v < y))
                cons.append(z3.Implies(z3.And(bt == b.t, b.t > 0, at >= 0, a.t >= 0, at > a.t), v > y))
                # monotone in exponent for equal base > 1 / < 1
                cons.append(z3.Implies(z3.And(at == a.t, a.t > 1, bt < b.t), v < y))
                cons.append(z3.Implies(z3.And(at == a.t, a.t > 1, bt > b.t), v > y))
                cons.append(z3.Implies(z3.And(at == a.t, a.t > 0, a.t < 1, bt < b.t), v > y))
                cons.append(z3.Implies(z3.And(at == a.t, a.t > 0, a.t < 1, bt > b.t), v < y))
                # pow(pow(x,e),1/e) = x
                cons.append(z3.Implies(z3.And(at == y, bt * b.t == 1, a.t >= 0), v == a.t))
                cons.append(z3.Implies(z3.And(a.t == v, bt * b.t == 1, at >= 0), y == at))
                self.axioms_used.add("pow: congruence, monotone in base (e>0) and exponent, pow(pow(x,e),1/e)=x")
            apps.append((a.t, b.t, y))
        else:
            for (at, bt, v) in apps:
                cons.append(z3.Implies(z3.And(at == a.t, bt == b.t), v == y))
            apps.append((a.t, b.t, y))
        self.add_def(Def(y, "uf:" + f, [a.t, b.t], cons))
        if self.mode == "pinned":
            av = float(self.evalz(a.t)); bv = float(self.evalz(b.t))
            try:
                self._setpin(y, Fraction(math.pow(av, bv)))
            except (ValueError, OverflowError, ZeroDivisionError):
                raise Reject("pinned pow domain")
        return SymReal(y, 1)

    def uf(self, name, *args, rng=(0.1, 2.0)):
        """application of an uninterpreted function `name` (a deterministic but otherwise arbitrary backend):
        symbolic: fresh constant with congruence axioms against earlier applications;
        concrete: the value the solver's model gave to the matching application (replay), else a fixed pseudo-random
        smooth function of the arguments (shim validation)."""
        if self.mode == "concrete":
            fargs = [float(a) for a in args]
            recs = self.values.get("__uf__", {}).get(name, [])
            for (avals, val) in recs:
                if len(avals) == len(fargs) and all(abs(x - y) <= 1e-9 * max(1.0, abs(x), abs(y)) for x, y in zip(avals, fargs)):
                    return float(val)
            return _uf_default(name, fargs, rng)
        largs = [SymReal.lift(a) for a in args]
        apps = self._ufapps.setdefault("user:" + name, [])
        for (ats, v) in apps:
            if len(ats) == len(largs) and all(x.get_id() == y.t.get_id() for x, y in zip(ats, largs)):
                return SymReal(v, 1)
        y = self.fresh("uf_" + name)
        cons = []
        for (ats, v) in apps:
            if len(ats) == len(largs):
                cons.append(z3.Implies(z3.And(*[x == yy.t for x, yy in zip(ats, largs)]) if largs else z3.BoolVal(True), v == y))
        self.axioms_used.add("%s: congruence (uninterpreted backend function)" % name)
        apps.append(([a.t for a in largs], y))
        self.uf_records.append((name, y, [a.t for a in largs]))
        self.add_def(Def(y, "uf:user:" + name, [a.t for a in largs], cons))
        if self.mode == "pinned":
            fargs = [float(self.evalz(a.t)) for a in largs]
            self._setpin(y, Fraction(_uf_default(name, fargs, rng)))
        return SymReal(y, 1)

    def pi(self):
        if self.mode == "concrete":
            return math.pi
        key = ("pi",)
        v = self._quot.get(key)
        if v is None:
            v = z3.Real("pi")
            self._quot[key] = v
            self.add_def(Def(v, "free", [], [v > rv("3.1415926"), v < rv("3.1415927")]))
            self.axioms_used.add("3.1415926 < pi < 3.1415927")
            if self.mode == "pinned":
                self._setpin(v, Fraction(math.pi))
        return SymReal(v, 1)

    def ite(self, c, a, b):
        if isinstance(c, (bool, _np.bool_)):
            return a if c else b
        if self.mode == "concrete":
            return a if c else b
        ct = b2z(c)
        if self.fold_ite and self.mode == "symbolic":
            imp = self.implied(ct)
            if imp is True:
                return a
            if imp is False:
                return b
        if isinstance(a, (SymBool, bool, _np.bool_)) and isinstance(b, (SymBool, bool, _np.bool_)):
            return mk_bool(z3.If(ct, b2z(a), b2z(b)))
        from . import fp as _fp
        if isinstance(a, _fp.SymFP) or isinstance(b, _fp.SymFP):
            fa, fb = _fp.SymFP.lift(a), _fp.SymFP.lift(b)
            return _fp.SymFP(z3.If(ct, fa.t, fb.t))
        la, lb = SymReal.lift(a), SymReal.lift(b)
        if la is None or lb is None:
            # non-scalar alternatives: fork
            return a if bool(c) else b
        if la.t.get_id() == lb.t.get_id():
            return la
        return self.named(SymReal(z3.If(ct, la.t, lb.t), la.sz + lb.sz + 2))

    # ------------------------------------------------------------------ harness-side helpers (mode independent)
    def eq(self, a, b, rtol=1e-7, atol=1e-11):
        if self.mode == "concrete":
            a = float(a); b = float(b)
            return abs(a - b) <= atol + rtol * max(abs(a), abs(b))
        if _is_fp(a) or _is_fp(b):
            return _fplift(a) == b
        return SymReal.lift(a) == b

    def le(self, a, b, rtol=1e-7, atol=1e-11):
        if self.mode == "concrete":
            a = float(a); b = float(b)
            return a <= b + atol + rtol * max(abs(a), abs(b))
        if _is_fp(a) or _is_fp(b):
            return _fplift(a) <= b
        return SymReal.lift(a) <= b

    def lt(self, a, b):
        if self.mode == "concrete":
            return float(a) < float(b)
        if _is_fp(a) or _is_fp(b):
            return _fplift(a) < b
        return SymReal.lift(a) < b

    def xeq(self, a, b):
        """exact equality claim (IEEE semantics in concrete mode, no tolerance)"""
        if self.mode == "concrete":
            return float(a) == float(b)
        return self.eq(a, b)

    def xle(self, a, b):
        if self.mode == "concrete":
            return float(a) <= float(b)
        return self.le(a, b)

    def xlt(self, a, b):
        if self.mode == "concrete":
            return float(a) < float(b)
        return self.lt(a, b)

    def all(self, conds):
        conds = list(conds)
        if self.mode == "concrete":
            return all(bool(c) for c in conds)
        ts = [b2z(c) for c in conds]
        return mk_bool(z3.And(*ts)) if ts else True

    def any(self, conds):
        conds = list(conds)
        if self.mode == "concrete":
            return any(bool(c) for c in conds)
        ts = [b2z(c) for c in conds]
        return mk_bool(z3.Or(*ts)) if ts else False

    def implies(self, a, b):
        if self.mode == "concrete":
            return (not bool(a)) or bool(b)
        return mk_bool(z3.Implies(b2z(a), b2z(b)))

    def neg(self, a):
        if self.mode == "concrete":
            return not bool(a)
        return mk_bool(z3.Not(b2z(a)))

    def observe(self, name, val):
        """record an output for translation validation (concrete run vs. evaluated terms)"""
        from . import symnp
        if isinstance(val, _np.ndarray):
            for idx in _np.ndindex(*val.shape):
                self.observe("%s[%s]" % (name, ",".join(map(str, idx))), val[idx])
            return
        if isinstance(val, (list, tuple)):
            for i, v in enumerate(val):
                self.observe("%s[%d]" % (name, i), v)
            return
        if self.mode == "concrete":
            self.observed[name] = val if isinstance(val, (bool, _np.bool_)) or val is None else float(val)
        elif self.mode == "pinned":
            if _is_fp(val):
                self.observed[name] = float(self.evalz(val.t))
            elif isinstance(val, SymReal):
                self.observed[name] = float(self.evalz(val.t))
            elif isinstance(val, SymBool):
                self.observed[name] = bool(self.evalz(val.t))
            elif val is None or isinstance(val, (bool, _np.bool_)):
                self.observed[name] = val
            else:
                self.observed[name] = float(val)

    def prove(self, name, cond, **kw):
        """the property clause `cond` must hold on this path"""
        from . import solve
        return solve.prove(self, name, cond, **kw)

    def safe(self, name="domain", upto=None):
        """pose the collected domain-safety side conditions (divisors != 0, sqrt/log arguments)"""
        from . import solve
        return solve.prove_safety(self, name, upto)


# --------------------------------------------------------------------------- explorer

class Explorer:
    def __init__(self, body, opts=None, max_paths=400, max_depth=60, deadline=None):
        self.body = body
        self.opts = opts or {}
        self.max_paths = max_paths
        self.max_depth = max_depth
        self.deadline = deadline
        self.pending = []
        self.paths = []
        self.aborted = 0
        self.budget_exhausted = False

    def schedule(self, prefix):
        self.pending.append(prefix)

    def check_budget(self):
        if self.deadline is not None and time.time() > self.deadline:
            self.budget_exhausted = True
            raise PathAbort("wall budget")

    def run(self, on_path=None):
        self.pending = [[]]
        n = 0
        while self.pending:
            if n >= self.max_paths or (self.deadline is not None and time.time() > self.deadline):
                self.budget_exhausted = True
                break
            prefix = self.pending.pop()
            ctx = Ctx("symbolic", prefix=prefix, opts=self.opts, explorer=self)
            _CUR[0] = ctx
            rec = {"prefix": prefix, "status": "ok", "exc": None}
            try:
                rec["result"] = self.body(ctx)
            except PathAbort as e:
                rec["status"] = "aborted"; rec["exc"] = str(e)
                self.aborted += 1
            except Reject as e:
                rec["status"] = "rejected"; rec["exc"] = str(e)
            except VkError:
                raise
            except Exception as e:           # exception escaping the real code on this path
                rec["status"] = "exception"; rec["exc"] = e
                import traceback
                rec["tb"] = traceback.format_exc()
            finally:
                try:
                    if ctx.pending:
                        from . import solve
                        solve.flush(ctx)
                finally:
                    _CUR[0] = None
            rec["ctx"] = ctx
            n += 1
            self.paths.append(rec)
            if on_path:
                on_path(rec)
        return self.paths


def run_concrete(body, values, mode="concrete", opts=None, rng=None):
    ctx = Ctx(mode, values=dict(values), opts=opts, rng=rng)
    _CUR[0] = ctx
    try:
        res = body(ctx)
    finally:
        _CUR[0] = None
    return ctx, res
