"""vk.astx -- lift the body and test of a `while` loop out of a real function (from its *current* source) so that one
iteration can be executed from an arbitrary symbolic state.  Nothing is transcribed by hand: if the loop disappears or
changes shape the extractor fails loudly (harness error, never a pass)."""
import ast, inspect, textwrap, sys
from .core import VkError


def extract_while(func, nth=0):
    """returns (step, test, info): step(state: dict) -> dict of locals after ONE execution of the loop body,
    test(state: dict) -> value of the loop condition.  `state` holds every local the loop reads (including `self`)."""
    src = textwrap.dedent(inspect.getsource(func))
    tree = ast.parse(src)
    fdef = tree.body[0]
    if not isinstance(fdef, (ast.FunctionDef,)):
        raise VkError("astx: not a function")
    loops = [n for n in ast.walk(fdef) if isinstance(n, ast.While)]
    if len(loops) <= nth:
        raise VkError("astx: function %s has no while loop #%d any more" % (func.__qualname__, nth))
    loop = loops[nth]
    if loop.orelse:
        raise VkError("astx: while/else not supported")
    for n in ast.walk(loop):
        if isinstance(n, (ast.Break, ast.Continue, ast.Return)):
            raise VkError("astx: loop body contains break/continue/return")
    names_read = sorted({n.id for n in ast.walk(loop) if isinstance(n, ast.Name)})
    params = [a.arg for a in fdef.args.args]
    # locals of the enclosing function = its parameters + every name assigned anywhere in it
    assigned = set(params)
    for n in ast.walk(fdef):
        if isinstance(n, ast.Name) and isinstance(n.ctx, ast.Store):
            assigned.add(n.id)
    live = [n for n in names_read if n in assigned]
    mod = sys.modules[func.__module__]
    body_src = "def __vk_step(__st):\n" + "".join("    %s = __st.get(%r)\n" % (n, n) for n in live)
    body_mod = ast.parse(body_src)
    fn = body_mod.body[0]
    fn.body.extend(loop.body)
    fn.body.append(ast.parse("return dict(locals())").body[0])
    test_src = "def __vk_test(__st):\n" + "".join("    %s = __st.get(%r)\n" % (n, n) for n in live) + "    return None\n"
    test_mod = ast.parse(test_src)
    tfn = test_mod.body[0]
    tfn.body[-1] = ast.Return(value=loop.test)
    m = ast.Module(body=[fn, tfn], type_ignores=[])
    ast.fix_missing_locations(m)
    ns = {}
    code = compile(m, "<loop of %s>" % func.__qualname__, "exec")
    exec(code, mod.__dict__, ns)
    info = {"function": func.__qualname__, "live": live, "test": ast.unparse(loop.test), "body_lines": len(loop.body),
            "body": ast.unparse(loop)}
    return ns["__vk_step"], ns["__vk_test"], info
