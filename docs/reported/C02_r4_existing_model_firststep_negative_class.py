import sys; sys.path.insert(0,'/tmp/wt/C02.out')
from existing_mock import *
m = makeModel(pbm=dict(cMin=1e-10, cMax=1e-8, bins=75, minBins=50, maxBins=100))
m.setup()
pbm = m.PBM[0]
r = pbm.PSDsize
psd = 1e18*np.exp(-0.5*((r-4e-9)/0.6e-9)**2)
pbm.PSD = psd.copy()
orig = m._updateParticleSizeDistribution
log=[]
def upd(t, x):
    xs = x[0].copy()
    orig(t, x)
    log.append((m.pData.n, xs, pbm.PSD.copy(), m.growth[0].copy()))
m._updateParticleSizeDistribution = upd
m.solve(3e6, solverType=SolverType.EXPLICITEULER, verbose=False)
N = m.pData.precipitateDensity[:,0]
print(N[:6], np.diff(N[:6]))
print(m.pData.time[:6])
for n, xs, ps, g in log[:4]:
    print(n, xs.sum(), ps.sum(), xs.min(), (xs<0).sum(), xs[:8], g[:8])
