'''
Pre-existing C02 violation 1 (UNMODIFIED tree): on the step on which a phase becomes unstable
(negative driving force and no two-phase equilibrium: xEqAlpha == 0), _updateParticleSizeDistribution
resets the PBM of that phase (PSD := 0, grid := original grid) and records the empty PSD for the step,
but the statistics appended to pData for the very same step were computed from the solver state x,
which still holds the whole population.  So at that recorded step number density, mean radius and
volume fraction are those of a population of 2.4e18 particles/m3 while both the size distribution held
by the model and the one recorded for the step are identically zero (first sentence of C02; far beyond
the "< 1 particle per class" removal).

Scenario: nucleation and growth at 700 K, then heating at 0.05 K/s; above 750 K the precipitate phase
does not exist any more (the thermodynamics object returns -1 for the interfacial composition and a
negative driving force), which is the situation the code comments describe ("non-isothermal situations
where the temperature gets too high"; in multicomponent systems: getGrowthAndInterfacialComposition
returning None with negative driving force).
Exits 1 (prints FAIL) when the violation is present.
'''
import sys, os
sys.path.insert(0, os.path.dirname(os.path.abspath(__file__)))
from preexisting_common import *

m = makeModel(T=lambda t: 700. if t < 2000 else min(700. + (t - 2000)*0.05, 800.), therm=IdealDiluteBinary(Tmax=750.))
m.setPSDrecording(True)
found = []
class Checker:
    def updateCoupledModel(self, mm):
        n = mm.pData.n
        pbm = mm.PBM[0]
        N = mm.pData.precipitateDensity[n,0]
        rec = pbm._recordedPSD[-1]
        if len(pbm._recordedTime) == n+1 and abs(N - rec.sum()) > len(rec) + 1e-9*N:
            found.append((n, mm.pData.time[n], mm.pData.temperature[n], N, mm.pData.Ravg[n,0], mm.pData.volFrac[n,0], rec.sum(), pbm.PSD.sum(), mm.pData.drivingForce[n,0]))
m.addCouplingModel(Checker())
m.solve(4000, solverType=SolverType.EXPLICITEULER)
for f in found:
    print('step %d (t=%.5g s, T=%.2f K): reported N = %.6e /m3, R = %.4e m, fv = %.4e  |  recorded PSD 0th moment = %.3e, PSD held by the model 0th moment = %.3e (driving force %.3e)' % f)
if found:
    print('FAIL')
    sys.exit(1)
print('PASS')
