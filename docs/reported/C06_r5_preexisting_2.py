'''
Pre-existing violation of C06 on the UNMODIFIED tree (exit 1 = violation present).

Sentence violated: "... first-order / fourth-order accurate ... for right-hand sides that depend explicitly on time".

Coupler (kawin/GenericModel.py) keeps its own clock that always starts at 0 ("We have the option to solve a model for a
given amount of time before coupling it to another model, which would make each model have a different internal time")
and hands THAT clock to getdXdt of every sub-model.  A model with an explicitly time dependent right-hand side
(a temperature schedule) that was first advanced on its own to t1 and is then advanced through a Coupler is therefore
integrated with f(t - t1, x) instead of f(t, x): an O(1) error that no step size removes, for Euler and for RK4 alike.
The clock of the model is also set back (model.t goes ..., t1, dt, 2dt, ...).
'''
import sys
import numpy as np
from kawin.GenericModel import GenericModel, Coupler
from kawin.solver.Solver import SolverType

class M(GenericModel):
    '''x' = cos(t), x(0) = 0, exact solution sin(t)'''
    def __init__(self, dt):
        super().__init__()
        self.t, self.x, self.dt = 0.0, [0.0], dt
    def getCurrentX(self): return self.t, self.x
    def getdXdt(self, t, x): return [np.cos(t)]
    def getDt(self, dXdt): return self.dt
    def postProcess(self, time, x):
        self.t, self.x = time, x
        return x, False

bad = False
for solver in (SolverType.EXPLICITEULER, SolverType.RK4):
    errs = []
    for dt in (0.02, 0.01, 0.005):
        m = M(dt)
        m.solve(1.0, solverType=solver)             #alone: 0 -> 1
        Coupler([m]).solve(1.0, solverType=solver)  #coupled: should continue 1 -> 2
        errs.append(abs(m.x[0] - np.sin(2.0)))
    print(solver, 'errors at the end of the coupled leg (exact sin(2)):', errs, ' model clock', m.t)
    if errs[-1] > 1e-2 or m.t != 2.0:
        bad = True
if bad:
    print('FAIL: a model that is not at time 0 is integrated by the Coupler with the time dependent right-hand side evaluated on the wrong clock')
    sys.exit(1)
print('PASS')
