'''Unmodified tree: two C18 clauses that already fail for specific inputs.'''
import warnings; warnings.filterwarnings('ignore')
import numpy as np
from kawin.precipitation.coupling import GrainGrowthModel, StrengthModel

# (1) "Zener drag ... freezes the structure when strong enough": a fully pinned structure is still changed by re-meshing
g = GrainGrowthModel(1e-8, 1e-4, bins=150)            # grains of ~1 um fill only the lowest 7 of 150 size classes
g.LoadDistribution(np.random.default_rng(0).lognormal(np.log(1e-6), 0.3, 100000))
g._z = 1e12                                            # drag >> 1/R for every class (what computeZenerRadius would store)
print('max |constrained growth rate| :', np.abs(g.constrainedGrowth(g.grainGrowth(g.pbm.PSD), g._z)).max())
g.solve(1)
print('mean grain size before/after one pinned step:', g.avgR, ' bins', 150, '->', g.pbm.bins)

# (2) mixed -> edge at 90 deg fails for the strong coherency term when the 'complex' J factor is selected
sm = StrengthModel()
sm.setDislocationParameters(79.3e9, 0.25e-9, 1/3, 0.5e-9, theta=90)
sm.setCoherencyParameters(0.001)
sm.setJfactor('complex')
print('coherencyStrong(90 deg) / coherencyStrongEdge :', sm.coherencyStrong(5e-8, 2e-7, 2e-7) / sm.coherencyStrongEdge(5e-8, 2e-7, 2e-7))
