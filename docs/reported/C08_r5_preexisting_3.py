"""Pre-existing (unmodified tree), borderline precondition: setBinConstraints documents that
"Minimum number of bins will be overridden to be at most half of maximum bins" (and that the
default bin count is overridden if out of range), but nothing is overridden. With
minBins > maxBins the coarsening step of the automatic adjustment re-meshes *to minBins*,
i.e. to more classes than the configured maximum.

Violated sentence of C08: "automatic adjustment with adaptive binning never leaves more
classes than the configured maximum".
Exit code 1 = defect present.
"""
import sys
import warnings
warnings.filterwarnings('ignore')
from kawin.precipitation import PopulationBalanceModel

pbm = PopulationBalanceModel(1e-10, 1e-9, bins=150, minBins=300, maxBins=200)
print('configured: bins %d, minBins %d, maxBins %d (documented: minBins is overridden to at most maxBins/2)' % (pbm.bins, pbm.minBins, pbm.maxBins))
for i in range(3):
    pbm.PSD[-1] = 10.
    pbm.adjustSizeClassesEuler()
    print('after adjustment %d: %d classes' % (i + 1, pbm.bins))
if pbm.bins > pbm.maxBins:
    print('DEFECT PRESENT: %d classes > configured maximum %d' % (pbm.bins, pbm.maxBins))
    sys.exit(1)
print('no defect')
sys.exit(0)
