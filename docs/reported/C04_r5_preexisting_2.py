'''
Pre-existing defect (unmodified tree), lower confidence: a fixed-composition boundary
condition that is set between two solve calls is never written to the boundary node.

applyBoundaryConditionsToInitialProfile is only executed by the first setup().  If the user
calls setBC / setBoundaryCondition(COMPOSITION_BC, value) after a first solve() (a legitimate
step in a "sequence of solve calls", e.g. switching a carburising atmosphere on), the flux treatment
freezes the node from then on, but at the composition it happened to have, not at the prescribed
value: the node given a fixed-composition boundary condition does not hold "that composition".

Property sentence violated: "A node given a fixed-composition boundary condition keeps that
composition for the whole run" (quantified over sequences of solve calls).
Exits 1 (prints FAIL) when the defect is present.
'''
import sys
import numpy as np
from kawin.diffusion import SinglePhaseModel
from kawin.diffusion.DiffusionParameters import BoundaryConditions

class StubTherm:
    def clearCache(self): pass
    def getInterdiffusivity(self, x, T, phase=None): return 1e-13

m = SinglePhaseModel([0, 1e-3], 20, ['NI', 'CR'], ['FCC_A1'], thermodynamics=StubTherm())
m.setTemperature(1000)
m.setCompositionStep(0.2, 0.6, 0.5e-3, 'CR')
m.solve(3600)                                                       #closed system
m.setBC(BoundaryConditions.COMPOSITION_BC, 0.5, BoundaryConditions.FLUX_BC, 0, 'CR')   #left node is now prescribed: 0.5
m.solve(3600)
print('prescribed left composition: 0.5, left node after the second solve call:', m.x[0,0])
print('boundary condition type stored for CR (1 = composition):', m.boundaryConditions.leftBCtype['CR'])
if abs(m.x[0,0] - 0.5) > 1e-6:
    print('FAIL: the node with the fixed-composition boundary condition does not hold the prescribed composition')
    sys.exit(1)
print('PASS')
