'''
Pre-existing violation of C12 (unmodified tree), milder than 1 and 2:
  "in every precipitation state ... size classes larger than the critical radius grow and smaller ones shrink"

With an aspect ratio that depends on the radius (ShapeFactor.setAspectRatio(callable), or
calculateAspectRatio=True with a strain energy) the critical radius is computed with the shape
(thermodynamic) factor evaluated at the aspect ratio of the PREVIOUS step's critical radius
(KWNBase._calcNucleationRate: aspectRatio(self.pData.Rcrit[n])), which is aspectRatio(0) in the first
state, whereas the Gibbs-Thomson energy of every size class uses the aspect ratio at its own radius.
ShapeFactor.findRcrit, which solves R = Rsphere*thermoFactor(ar(R)), is never called.  In the first state(s)
of a simulation the critical radius (at which nuclei are inserted) is therefore not the radius at which
growth changes sign; it takes several steps of the lagged fixed-point iteration to get there.
'''
import sys, warnings
import numpy as np
warnings.filterwarnings('ignore')
from kawin.tests.datasets import ALZR_TDB
from kawin.thermo import BinaryThermodynamics
from kawin.precipitation import PrecipitateModel, VolumeParameter

th = BinaryThermodynamics(ALZR_TDB, ['AL', 'ZR'], ['FCC_A1', 'AL3ZR'], drivingForceMethod='tangent')
th.setDiffusivity(lambda T: 0.0768*np.exp(-242000/(8.314*T)), 'FCC_A1')
m = PrecipitateModel(phases=['AL3ZR'], elements=['ZR'])
m.setPBMParameters(cMin=1e-10, cMax=4e-9, bins=800, minBins=600, maxBins=1000)
m.setInitialComposition(6e-4)
m.setTemperature(723.15)
m.setInterfacialEnergy(0.1)
a = 0.405e-9
m.setVolumeAlpha(a**3, VolumeParameter.ATOMIC_VOLUME, 4)
m.setVolumeBeta(a**3, VolumeParameter.ATOMIC_VOLUME, 4)
m.setNucleationDensity(grainSize=1, dislocationDensity=1e15)
m.setNucleationSite('dislocations')
m.setPrecipitateShape('needle', ratio=lambda R: 1 + np.atleast_1d(R)/1e-10)   # needles that elongate as they grow
m.setThermodynamics(th)
m.setup()

R = m.PBM[0].PSDbounds; g = m.growth[0]
pos = np.where(g > 0)[0]
R0 = np.interp(0, [g[pos[0]-1], g[pos[0]]], [R[pos[0]-1], R[pos[0]]])
Rcrit = m.pData.Rcrit[0, 0]
bad = ((R > 1.02*Rcrit) & (g <= 0)).sum()
print('state 0: Rcrit %.4e m, growth changes sign at %.4e m, classes above 1.02*Rcrit that shrink: %d' % (Rcrit, R0, bad))
if bad == 0 and abs(R0/Rcrit - 1) < 0.02:
    print('PASS'); sys.exit(0)
print('FAIL: in the initial state the critical radius is not where growth changes sign (aspect ratio taken at the previous Rcrit = 0)'); sys.exit(1)
