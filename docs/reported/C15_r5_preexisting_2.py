"""Pre-existing (unmodified tree), low severity: for needle and plate shapes the thermodynamic and kinetic factors are
evaluated through 0/0-type expressions in the eccentricity (log(1+e)-log(1-e), pi/2-arccos(e), log((1+e)/(1-e))/(2e)).
For aspect ratios within ~1e-7 of 1 the cancellation amplifies rounding to ~1e-9 .. 7e-9 (1e7 ulp), so that
  * the factors drop BELOW 1 (a spheroid with less area / capacitance than the equal-volume sphere),
  * they are not monotone in the aspect ratio, and
  * they differ from the exact area / capacitance ratio by up to ~7e-9 relative.
Violates: "... both ... equal 1 at aspect ratio 1 and increase with aspect ratio" (and the 'equals the area /
capacitance ratio' clause at the 1e-9 level).  This is amplified rounding, not 1e-15 noise, hence reported.
"""
import sys, warnings
import numpy as np
warnings.simplefilter('ignore')
from kawin.precipitation.parameters.ShapeFactors import NeedleDescription, PlateDescription

eps = np.finfo(float).eps
ars = 1 + np.arange(1, 400) * eps            # aspect ratios just above 1
bad = False
for d in (NeedleDescription(), PlateDescription()):
    for name in ('kineticFactor', 'thermoFactor'):
        v = getattr(d, name)(ars)
        below = v.min() - 1
        drops = np.diff(np.concatenate([[1.0], v]))
        print('%-7s %-13s min-1 = %+.3e   largest decrease between neighbours = %.3e' % (d.name, name, below, drops.min()))
        # anything beyond 1e-12 is far outside plain rounding
        if below < -1e-12 or drops.min() < -1e-12:
            bad = True
if bad:
    print('FAIL: needle/plate factors fall below 1 and are non-monotone just above aspect ratio 1')
    sys.exit(1)
print('PASS')
sys.exit(0)
