'''
Unmodified tree: a start time that is large compared with the duration (t0 = 1e9, dt_total = 1.0, default
step fractions).  The minimum step 1e-8*dt_total is below half the spacing of doubles at t0 (1.2e-7), so
"currTime += dt" leaves the clock unchanged: a model proposing a zero/negative/NaN step (clamped to the minimum
step) gets the same time again and again and solve never returns.  This is not an ulp-sized error of a time:
the accepted times stop increasing altogether.
Violates: "accepted times are strictly increasing" / "advances the model ... to exactly t0+dt_total" for
"all start times, durations".
'''
import sys, os
sys.path.insert(0, os.path.dirname(os.path.abspath(__file__)))
import numpy as np
from _toy import Toy, StepLimit
from kawin.solver import SolverType

bad = []
for it in (SolverType.EXPLICITEULER, SolverType.RK4):
    m = Toy([0.0], t0=1e9, maxSteps=2000)
    try:
        m.solve(1.0, solverType=it)
        if m.accepted[-1] != 1e9 + 1.0 or not np.all(np.diff(m.accepted) > 0):
            bad.append('%s: contract broken' % it.name)
    except StepLimit as e:
        bad.append('%s: %s' % (it.name, e))
if bad:
    print('FAIL'); print('\n'.join('  ' + b for b in bad)); sys.exit(1)
print('PASS')
