import numpy as np, warnings
warnings.filterwarnings('ignore')
import sys; sys.path.insert(0, '/tmp/wt/C12.out')
from existing_violation_multicomponent_strain import FakeTherm as _F
FakeTherm = lambda dg: _F()
from kawin.precipitation import PrecipitateModel, VolumeParameter, PrecipitateParameters, MatrixParameters, TemperatureParameters
mat = MatrixParameters(['A','B']); mat.volume.setVolume(1e-5,'VM',4); mat.initComposition=[0.1,0.08]
mat.nucleationSites.setBulkDensity(1e28)
ps=[]
for name, g in [('b1',0.1),('b2',0.2)]:
    p = PrecipitateParameters(name,'BETA'); p.gamma=g; p.volume.setVolume(1e-5,'VM',4); p.nucleation.setNucleationType('bulk'); ps.append(p)
m = PrecipitateModel(thermodynamics=FakeTherm(3000.0), matrixParameters=mat, precipitateParameters=ps, temperatureParameters=TemperatureParameters(800))
m.setPBMParameters(cMin=1e-10, cMax=2e-8, bins=200, adaptive=False)
m.setup()
for p in range(2):
    Rc = m.pData.Rcrit[0,p]; R = m.PBM[p].PSDbounds; g = m.growth[p]
    bad = [(r, gi) for r, gi in zip(R, g) if (r > Rc*1.02 and gi <= 0) or (r < Rc*0.98 and gi >= 0)]
    print(p, 'Rcrit', Rc, 'nbad', len(bad))
