'''
Pre-existing C02 violation 3 (UNMODIFIED tree), two related ways in which the size distribution is
replaced outside a step while the recorded statistics are not:

(a) save -> load into a new model -> solve: the first solve() on the loaded model runs setup(), whose
    _setupAspectRatio() resets every PBM.  The loaded size distribution (2.1e18 particles/m3) is wiped
    before the first step, so the statistics of the last loaded step are not the moments of the
    distribution the run continues from, and between two consecutive recorded steps the number density
    drops from 2.1e18 to 0 and the volume fraction to 0 without any dissolution through the smallest
    size class (second sentence of C02: changes only by nucleation and by dissolution).
(b) PrecipitateModel.loadParticleSizeDistribution (public API): called before the first solve() the data
    is silently discarded by the same reset; called after setup() the distribution is kept but the
    statistics of step 0 stay 0, so N rises from 0 to 2e5 in the first step with zero nucleation rate
    (first and second sentence of C02).
Exits 1 (prints FAIL) when a violation is present.
'''
import sys, os
sys.path.insert(0, os.path.dirname(os.path.abspath(__file__)))
from preexisting_common import *
import tempfile

fail = False
#(a)
m = makeModel()
m.solve(3000, solverType=SolverType.EXPLICITEULER)
fn = os.path.join(tempfile.mkdtemp(), 'model.npz')
m.save(fn)
m2 = makeModel()
m2.load(fn)
n0 = m2.pData.n
print('(a) loaded: step %d, reported N = %.6e, 0th moment of loaded PSD = %.6e' % (n0, m2.pData.precipitateDensity[n0,0], m2.PBM[0].ZeroMoment()))
m2.solve(100, solverType=SolverType.EXPLICITEULER)
print('    after solve(100): step %d t=%.6g N=%.6e fv=%.3e  ->  step %d t=%.6g N=%.6e fv=%.3e' % (n0, m2.pData.time[n0], m2.pData.precipitateDensity[n0,0], m2.pData.volFrac[n0,0], n0+1, m2.pData.time[n0+1], m2.pData.precipitateDensity[n0+1,0], m2.pData.volFrac[n0+1,0]))
if m2.pData.precipitateDensity[n0,0] > 1e6 and m2.pData.precipitateDensity[n0+1,0] == 0:
    fail = True

#(b)
rng = np.random.default_rng(0)
data = rng.normal(2e-9, 0.2e-9, 200000)
m3 = makeModel(therm=IdealDiluteBinary(nucleate=False))
m3.loadParticleSizeDistribution(data)
before = m3.PBM[0].ZeroMoment()
m3.setup()
print('(b) loaded before solve: 0th moment %.1f, after setup(): %.1f' % (before, m3.PBM[0].ZeroMoment()))
m3.loadParticleSizeDistribution(data)
m3.solve(1, solverType=SolverType.EXPLICITEULER)
N, J = m3.pData.precipitateDensity[:,0], m3.pData.nucRate[:,0]
print('    loaded after setup(): N[0..2] = %s, nucleation rate[0..2] = %s' % (N[:3], J[:3]))
if N[1] - N[0] > max(J[0], J[1])*(m3.pData.time[1] - m3.pData.time[0]) + 60:
    fail = True

if fail:
    print('FAIL')
    sys.exit(1)
print('PASS')
