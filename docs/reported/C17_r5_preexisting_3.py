'''
Pre-existing (unmodified tree), defined mobilities only, direct calls of the public rule functions:
(a) a defined mobility that is exactly 0 (what _computeSingleMobility produces, mobility*u-fraction, for a phase that does
    not dissolve an element) makes hashinShtrikmanLower return nan (0/0 in Ak); the correct lower HS bound is 0 and
    wienerLower does return 0.
(b) _hashinShtrikmanGeneral evaluates  extreme + A/(1 - A/(3*extreme)) ; when the reference (extreme) phase has fraction 0
    (a vertex/face of the simplex: "single phase present" but several phases listed) 1 - A/(3*extreme) cancels
    catastrophically: the result is off from the phase mobility by 3e-4 (relative) for a mobility ratio of 1e12 and is
    inf (division by zero) for a ratio >= ~1e16, so "equal to the phase mobility when a single phase is present" and the
    ordering lower Wiener <= lower HS <= upper HS <= upper Wiener fail far above rounding level.
'''
import sys, warnings
import numpy as np
warnings.filterwarnings('ignore')
from kawin.diffusion.HomogenizationParameters import wienerLower, wienerUpper, hashinShtrikmanLower, hashinShtrikmanUpper
bad = []
# (a)
mob = np.array([[1e-20, 0.0], [2e-20, 3e-20]]); f = np.array([0.4, 0.6])
hl = hashinShtrikmanLower(mob.copy(), f.copy()); wl = wienerLower(mob.copy(), f.copy())
print('(a) WL', wl, 'HL', hl)
if not np.all(np.isfinite(hl)): bad.append('(a) lower HS is nan when a phase has zero mobility for an element')
# (b)
for ratio in (1e10, 1e12, 1e17):
    mob = np.array([[1e-25], [1e-25*ratio]])
    for f in (np.array([1., 0.]), np.array([0., 1.])):
        present = mob[np.argmax(f), 0]
        r = {n: fn(mob.copy(), f.copy())[0] for n, fn in (('WL', wienerLower), ('HL', hashinShtrikmanLower), ('HU', hashinShtrikmanUpper), ('WU', wienerUpper))}
        err = max(abs(v/present - 1) if np.isfinite(v) else np.inf for v in r.values())
        print(f'(b) ratio {ratio:g} f {f} present-phase mobility {present:g}', r, 'max rel. deviation', err)
        if err > 1e-9: bad.append(f'(b) ratio {ratio:g}, f={f}: rules deviate from the only present phase by {err:g}')
if bad:
    print('FAIL'); [print('  -', b) for b in bad]; sys.exit(1)
print('PASS'); sys.exit(0)
