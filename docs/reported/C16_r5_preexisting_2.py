'''
PRE-EXISTING (unmodified tree): with an eigenstrain TENSOR that has shear components the 6x6 (Voigt)
energy routines disagree with the fourth-rank routine, and the inhomogeneity routine that
StrainEnergy.compute() uses (strainEnergyBohm) does not reduce to the homogeneous-inclusion result
when precipitate and matrix stiffness coincide.

Violates: "is the same whether computed with 6x6 or fourth-rank tensors" and "reduces to the
homogeneous-inclusion result when precipitate and matrix stiffness coincide" (the property quantifies
over eigenstrain tensors; setEigenstrain documents 'matrix - full 2nd rank strain tensor').

Cause: convert2rankToVec / convert4To2rankTensor use plain Voigt packing without the factors 2 (4) that
strain-like vectors and the columns of S need, so
  * strainEnergyEllipsoid2ndRank / strainEnergyBohm2ndRank count each shear term once instead of twice/four times;
  * invert4rankTensor (inverse of the naive 6x6, packed back) is not the inverse under the double contraction:
    for C_1212 = c44 it returns 1/c44 instead of 1/(4 c44), so in strainEnergyBohm "inv(C_m) : C_p" with C_p = C_m
    is not the identity on shear components (it multiplies them by 4).
A pure shear eigenstrain in an isotropic sphere has the textbook energy 2 G (1 - 2 S1212) e12^2 V (= G gamma^2 (1-2 S1212) V / 2, gamma = 2 e12) with
S1212 = (4-5nu)/(15(1-nu)); compute() returns 4x that.
'''
import sys
import numpy as np
from kawin.precipitation import StrainEnergy

bad = False
# (a) cubic matrix aligned with the particle, general symmetric eigenstrain, default settings
se = StrainEnergy('ellipsoid')
se.setElasticConstants(168.4e9, 121.4e9, 75.4e9)
se.setEigenstrain(np.array([[0.010, 0.004, 0.000], [0.004, 0.020, 0.003], [0.000, 0.003, 0.005]]))
r = np.array([1.0, 1.3, 2.0])
d = se.description
vals = {'4th rank homogeneous (strainEnergyEllipsoid)': d.strainEnergyEllipsoid(r),
        '6x6 homogeneous (strainEnergyEllipsoid2ndRank)': d.strainEnergyEllipsoid2ndRank(r),
        '4th rank Bohm, C_p = C_m (= compute())': se.compute(r),
        '6x6 Bohm, C_p = C_m (strainEnergyBohm2ndRank)': d.strainEnergyBohm2ndRank(r)}
ref = vals['4th rank homogeneous (strainEnergyEllipsoid)']
for k, v in vals.items():
    print(f'{k:52s} {v:.6e}   ratio to 4th-rank homogeneous {v/ref:.4f}')
    bad |= abs(v/ref - 1) > 1e-6

# (b) textbook: isotropic matrix, sphere, pure shear eigenstrain (accurate full-sphere grid to keep the quadrature out of it)
G, nu, e12 = 50e9, 0.3, 0.01
se = StrainEnergy('ellipsoid'); se.setModuli(G=G, nu=nu)
se.setEigenstrain(np.array([[0, e12, 0], [e12, 0, 0], [0, 0, 0]]))
se.description.setIntegrationIntervals(160, 80, assumeSymmetric=False)
r = np.ones(3); V = 4*np.pi/3
S1212 = (4-5*nu)/(15*(1-nu))
text = 2*G*(1-2*S1212)*e12**2*V
d = se.description
for k, v in {'compute() (Bohm, 4th rank)': se.compute(r), 'strainEnergyEllipsoid (4th rank)': d.strainEnergyEllipsoid(r),
             'strainEnergyEllipsoid2ndRank (6x6)': d.strainEnergyEllipsoid2ndRank(r), 'strainEnergyBohm2ndRank (6x6)': d.strainEnergyBohm2ndRank(r)}.items():
    print(f'pure shear, isotropic sphere: {k:38s} {v:.6e}   / textbook {text:.6e} = {v/text:.4f}')
    bad |= abs(v/text - 1) > 1e-3

print('FAIL (defect present)' if bad else 'PASS')
sys.exit(1 if bad else 0)
