'''
Finding on the UNMODIFIED tree (C13, last sentence): with the default RK4 solver the binary lookup table
can be left at a temperature far from the current one.

_growthRateBinary is called for the RK4 stages at t+dt/2 and t+dt as well as in postProcess. If the schedule
has an excursion inside one step, the table is rebuilt at the stage temperature (here 705 K) and dTemp is set
to 0; the step then ends at 700 K, dTemp stays 0, and the 705 K table is used for the rest of the 700 K hold.
(With the explicit Euler solver the table stays at 700 K.)
Prints the recorded temperatures and the temperature of the table in use; exit 1 if they differ by more than maxTempChange.
'''
import sys, io, contextlib, warnings
warnings.filterwarnings('ignore')
import numpy as np
from kawin.precipitation import PrecipitateModel, VolumeParameter

class StubTherm:
    numElements = 2
    def __init__(self): self.tableT = []
    def clearCache(self): pass
    def getDrivingForce(self, x, T, precPhase=None, removeCache=False, training=False):
        x = np.atleast_1d(x); return -1000.0*np.ones(x.shape), 0.25*np.ones(x.shape)
    def getInterfacialComposition(self, T, gExtra=0, precPhase=None):
        if np.ndim(gExtra) == 0:
            return 1e-3*np.exp((T-700)/100.), 0.25
        g = np.asarray(gExtra)
        if len(g) > 3: self.tableT.append(float(T))      # a full table is being built at T
        return 1e-3*np.exp((T-700)/100.)*np.exp(g/(8.314*T)), 0.25*np.ones(len(g))
    def getInterdiffusivity(self, x, T, removeCache=False): return 1e-20
    def getTracerDiffusivity(self, x, T, removeCache=False): return np.array([[1e-20, 1e-20]])

th = StubTherm()
m = PrecipitateModel(phases=['BETA'], elements=['B'], thermodynamics=th)
m.setPBMParameters(cMin=1e-10, cMax=1e-8, bins=50, minBins=40, maxBins=80)
m.setInitialComposition(5e-4); m.setInterfacialEnergy(0.1)
m.setVolumeAlpha(1e-5, VolumeParameter.MOLAR_VOLUME, 4); m.setVolumeBeta(1e-5, VolumeParameter.MOLAR_VOLUME, 4)
with contextlib.redirect_stdout(io.StringIO()):
    # 700 K hold with a 5 K, 0.2 s wide excursion centred on t = 50 s
    m.setTemperature(np.array([0, 49.9, 50.0, 50.1, 100])/3600, [700, 700, 705, 700, 700])
    m.solve(49.0)
    m.solve(2.0, minDtFrac=1, maxDtFrac=1)     # one 2 s step 49 -> 51 s; RK4 stages at 50, 50, 51 s
    m.solve(10.0)
print('recorded T of the last steps:', m.pData.temperature[-4:], ' table in use was built at', th.tableT[-1], 'K; dTemp =', m.dTemp)
bad = abs(th.tableT[-1] - m.pData.temperature[-1]) > m.constraints.maxTempChange
print('VIOLATION' if bad else 'ok')
sys.exit(1 if bad else 0)
