'''
Unmodified tree: minDtFrac = 0 ("no lower limit") and a model that proposes a zero (or negative / NaN) step.
The solver accepts a step of length 0: postProcess is called again with the same time, so accepted times
are not strictly increasing; if every proposal is zero/NaN/negative the run never ends.
Violates: "accepted times are strictly increasing ... whatever step size the model proposes (zero, negative, ... NaN)".
'''
import sys, os
sys.path.insert(0, os.path.dirname(os.path.abspath(__file__)))
import numpy as np
from _toy import Toy, StepLimit
from kawin.solver import SolverType

bad = []
for it in (SolverType.EXPLICITEULER, SolverType.RK4):
    m = Toy([0.3, 0.0])                    #every second proposal is zero
    m.solve(1.0, solverType=it, minDtFrac=0.0, maxDtFrac=1)
    steps = np.diff(m.accepted)
    if not np.all(steps > 0):
        bad.append('%s: accepted times %r contain repeated values' % (it.name, m.accepted))
    m = Toy([float('nan')])
    try:
        m.solve(1.0, solverType=it, minDtFrac=0.0, maxDtFrac=1)
    except StepLimit as e:
        bad.append('%s: NaN proposals with minDtFrac=0 never advance: %s' % (it.name, e))
if bad:
    print('FAIL'); print('\n'.join('  ' + b for b in bad)); sys.exit(1)
print('PASS')
