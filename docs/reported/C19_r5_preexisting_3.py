'''
Pre-existing (unmodified tree; root cause is in Coupler, the stopping condition is where it shows):
The Coupler docstring allows a model to be solved on its own for some time before it is coupled. Coupler.postProcess
then hands its own clock (starting at 0) to the model, so the model's time axis jumps backwards (..., 3.0, 0.25, 0.5, ...).
A stopping condition that is crossed on the first coupled step interpolates between the model time of the previous
row (3.0) and the coupler time of the new row (0.25) and reports a time (1.625) that lies neither in the step as seen
by the model (3.0 -> 3.25) nor in the step as seen by the coupler (0 -> 0.25).
Violates: 'its reported time lies within the step on which the monitored quantity crossed the threshold'.
'''
import sys, warnings
warnings.filterwarnings('ignore')
import numpy as np
from kawin.GenericModel import Coupler
from kawin.precipitation import PrecipitateBase
from kawin.precipitation.StoppingConditions import Inequality, VolumeFractionCondition

class ScriptedModel(PrecipitateBase):
    '''script(t) -> dict attribute name -> values for each phase (or element)'''
    def __init__(self, phases, elements, script, dt):
        super().__init__(phases=phases, elements=elements)
        self.script, self.dt, self.growth = script, dt, None
        self.setInitialComposition(0.01 if len(elements) == 1 else [0.01]*len(elements))
        self.setTemperature(500)
        self.setVolumeAlpha(1e-5, 'VM', 4)
        for ph in phases:
            self.setVolumeBeta(1e-5, 'VM', 4, phase=ph)
    def _fill(self, Y, t):
        for k, v in self.script(t).items():
            getattr(Y, k)[0] = v
        return Y
    def setup(self):
        if self._isSetup:
            return
        super().setup()
        self.pData.setSlice(self._fill(self.pData.copySlice(0), 0.0), 0)
    def getCurrentX(self): return self.pData.time[self.pData.n], [np.zeros(1)]
    def getDt(self, dXdt): return self.dt
    def _processX(self, x): pass
    def _calcMassBalance(self, t, x, Y): return self._fill(Y, t)
    def _calcNucleationRate(self, t, x, Y): return Y
    def _growthRate(self, Y): return None, Y
    def _getdXdt(self, t, x, Y, growth): return [np.zeros(1)]
    def _correctdXdt(self, dt, x, dXdt, Y, growth): pass
    def _updateParticleSizeDistribution(self, t, x): pass


def make():
    #state driven growth: the volume fraction depends on the number of steps taken, 0.0025 per step of 0.25 s
    m = ScriptedModel(['A'], ['X'], None, dt=0.25)
    m.script = lambda t: dict(volFrac=[0.0025*(m.pData.n + 1) if m._isSetup else 0.0])
    return m

#reference: the model on its own, 12 steps to t = 3, then continued
ref = make()
cref = VolumeFractionCondition(Inequality.GREATER_THAN, 0.03125)
ref.addStoppingCondition(cref)
ref.solve(3)
ref.solve(5)
print('alone  : condition met at t = %.4f, run ended at t = %.2f (rows %s)' % (cref.satisfiedTime(), ref.pData.time[-1], ref.pData.time[-3:]))

m = make()
c = VolumeFractionCondition(Inequality.GREATER_THAN, 0.03125)
m.addStoppingCondition(c)
m.solve(3)                       #solved on its own first (as the Coupler docstring allows)
other = ScriptedModel(['A'], ['X'], lambda t: dict(volFrac=[0.0]), dt=0.25)
coupled = Coupler([m, other])
coupled.solve(5)
tPrev, tCurr = m.pData.time[-2], m.pData.time[-1]
print('coupled: condition met at t = %.4f, model rows %s, coupler rows %s' % (c.satisfiedTime(), m.pData.time[-3:], coupled.time))

inModelStep = 3.0 <= c.satisfiedTime() <= 3.25
inCouplerStep = 0.0 <= c.satisfiedTime() <= 0.25
ok = c.isSatisfied() and (inModelStep or inCouplerStep) and np.all(np.diff(m.pData.time) > 0)
print('PASS' if ok else 'FAIL')
sys.exit(0 if ok else 1)
