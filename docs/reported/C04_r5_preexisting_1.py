'''
Pre-existing defect (unmodified tree): continuing a diffusion run after save/load

A model that is loaded from a file (load()/fromDict()) keeps isSetup == False, so the
first solve() after the load runs DiffusionModel.setup() in full: the composition profile
is rebuilt from the CompositionProfile on top of the loaded state (and the min-composition
shift is applied once more), while the loaded time is kept.  The loaded composition is thrown
away, so over that "step" the mesh-summed amount of the component does NOT change by
(left flux - right flux) * dt / dz.

Property sentence violated: "the mesh-summed amount of each independent component changes over
any step by exactly (left boundary flux minus right boundary flux) times the step divided by the
cell width ... over any number of steps and any number of consecutive solve calls".

No thermodynamic database is needed: a stub object with a constant interdiffusivity is used.
Exits 1 (prints FAIL) when the defect is present.
'''
import os, sys, tempfile
import numpy as np
from kawin.diffusion import SinglePhaseModel
from kawin.diffusion.DiffusionParameters import BoundaryConditions

class StubTherm:
    def clearCache(self): pass
    def getInterdiffusivity(self, x, T, phase=None): return 1e-13

J = 1e-12    #flux entering through the left boundary
def build():
    bc = BoundaryConditions()
    bc.setBoundaryCondition(BoundaryConditions.LEFT, BoundaryConditions.FLUX_BC, J, 'CR')
    m = SinglePhaseModel([0, 1e-3], 20, ['NI', 'CR'], ['FCC_A1'], thermodynamics=StubTherm(), boundaryConditions=bc)
    m.setTemperature(1000)
    m.setCompositionStep(0.2, 0.6, 0.5e-3, 'CR')
    return m

m = build()
m.solve(3600)
fname = os.path.join(tempfile.mkdtemp(), 'state.npz')
m.save(fname)

m2 = build()
m2.load(fname)
t_loaded, sum_loaded = float(m2.t), m2.x.sum(axis=1)
m2.solve(3600)
expected = sum_loaded + J*(m2.t - t_loaded)/m2.dz
err = np.abs(m2.x.sum(axis=1) - expected)

#Reference: the original object continued without save/load
m.solve(3600)
print('time after continuation        :', m2.t, '(reference', m.t, ')')
print('sum(x_CR) loaded               :', sum_loaded)
print('sum(x_CR) after load + solve   :', m2.x.sum(axis=1))
print('expected (loaded + J*dt/dz)    :', expected)
print('reference (no save/load)       :', m.x.sum(axis=1))
bad = err.max() > 1e-10 or not np.allclose(m.x, m2.x, rtol=0, atol=1e-10)

#Second form: closed boundaries (the default) and a 'bounded' initial profile.  The bounded step is written
#on top of the loaded state, so even the closed system gains material between two consecutive solve calls
def buildClosed():
    m = SinglePhaseModel([0, 1e-3], 20, ['NI', 'CR'], ['FCC_A1'], thermodynamics=StubTherm())
    m.setTemperature(1000)
    m.setCompositionInBounds(0.4, 0.2e-3, 0.4e-3, 'CR')
    return m
c = buildClosed()
c.solve(20*3600)
c.save(fname)
c2 = buildClosed()
c2.load(fname)
sum_loaded = c2.x.sum()
c2.solve(3600)
print('closed system, bounded profile: sum(x_CR) loaded %.10f, after load + solve %.10f' % (sum_loaded, c2.x.sum()))
bad = bad or abs(c2.x.sum() - sum_loaded) > 1e-10

if bad:
    print('FAIL: the run continued after load() does not honour the balance; |error| = %.3e (flux case), %.3e (closed case)' % (err.max(), abs(c2.x.sum() - sum_loaded)))
    sys.exit(1)
print('PASS')
