'''
UNMODIFIED tree already violates C12: multicomponent system with a non-zero (e.g. constant) strain energy.
PrecipitateModel._singleGrowthMulti passes dG = volumetricDrivingForce*Vm (strain energy already subtracted)
to the growth law, and the Gibbs-Thomson term PrecipitateParameters.computeGibbsThomsonContribution adds the
strain energy again, so growth changes sign at 2*gamma/(dGchem/Vm - 2*strain) while Rcrit = 2*gamma/(dGchem/Vm - strain).
(The binary path is consistent: there the chemical driving force is compared with g.)
Prints the number of size classes larger than Rcrit that shrink; exits 1 if any.
'''
import sys, warnings
warnings.filterwarnings('ignore')
import numpy as np
from kawin.precipitation import PrecipitateModel, VolumeParameter
from kawin.thermo.MultiTherm import CurvatureOutput, _growthRateOutputFromCurvature
from kawin.thermo.utils import _process_x

class FakeTherm:
    numElements = 3
    curv = CurvatureOutput(dc=np.array([1e-6, 2e-6]), mc=1e-20, gba=np.eye(2), beta=1e-3,
                           c_eq_alpha=np.array([0.05, 0.05]), c_eq_beta=np.array([0.2, 0.1]))
    def getDrivingForce(self, x, T, precPhase=None, removeCache=False, **kw):
        x = np.atleast_2d(x)
        return np.squeeze(3000.0*np.ones(len(x))), np.squeeze(np.tile([0.2, 0.1], (len(x), 1)))
    def getGrowthAndInterfacialComposition(self, x, T, dG, R, gExtra, precPhase=None, removeCache=False, searchDir=None):
        return _growthRateOutputFromCurvature(_process_x(x, 3), dG, R, gExtra, self.curv)
    def impingementFactor(self, x, T, precPhase=None, removeCache=False, searchDir=None):
        return self.curv.beta

def run(strain):
    m = PrecipitateModel(phases=['BETA'], elements=['A', 'B'])
    m.setPBMParameters(cMin=1e-10, cMax=2e-8, bins=200, adaptive=False)
    m.setInitialComposition([0.1, 0.08]); m.setTemperature(800); m.setInterfacialEnergy(0.1)
    m.setVolumeAlpha(1e-5, VolumeParameter.MOLAR_VOLUME, 4); m.setVolumeBeta(1e-5, VolumeParameter.MOLAR_VOLUME, 4)
    m.setNucleationSite('bulk'); m.setNucleationDensity(bulkN0=1e28)
    m.precipitateParameters[0].strainEnergy.setConstantElasticEnergy(strain)
    m.setThermodynamics(FakeTherm())
    m.setup()
    Rc = m.pData.Rcrit[0,0]; R = m.PBM[0].PSDbounds; g = m.growth[0]
    bad = int(np.sum((R > 1.02*Rc) & (g <= 0)) + np.sum((R < 0.98*Rc) & (g >= 0)))
    print('strain energy %.1e J/m3: Rcrit = %.3e, first growing class = %.3e, misbehaving classes = %d' % (strain, Rc, R[np.argmax(g > 0)], bad))
    return bad
if __name__ == '__main__':
    sys.exit(1 if run(0.0) + run(1e8) > 0 else 0)
