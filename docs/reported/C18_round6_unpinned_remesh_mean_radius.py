# Unmodified kawin: mean grain size DEcreases without any pinning (z = 0), because of re-meshing
# (pbm.adjustSizeClassesEuler -> changeSizeClasses re-interpolates the PSD when the loaded
# distribution occupies only the lower part of the size grid).
import numpy as np, warnings
warnings.filterwarnings('ignore')
from kawin.precipitation.coupling import GrainGrowthModel
g = GrainGrowthModel(1e-7, 1e-4, bins=150)
g.LoadDistribution(np.random.default_rng(0).lognormal(np.log(3e-6), 0.3, 20000))
for i in range(4):
    g.solve(1e-3)
print(g.avgR)              # [3.44230372e-06 3.46181176e-06 3.46166120e-06 ...]
print(np.diff(g.avgR))     # second difference is -1.5e-10 (mean grain size decreased, no pinning)
# Same mechanism under total pinning: g._z = 1e12; g.solve(10.) changes avgR by 0.55 % (structure not frozen).
