"""
Pre-existing (unmodified tree): PrecipitateParameters(name, phase) separates the output
name from the database phase, but the model addresses its precipitates by the database
phase only (self.phases = [p.phase ...]; phaseIndex = first match).  With two entries
that share a database phase (same phase nucleating in the bulk and on dislocations,
with different interfacial energies) every by-name lookup made inside the model -
particleGibbs(..., self.precipitateParameters[p].phase) in _createLookupBinary /
_singleGrowthMulti / _updateParticleSizeDistribution - returns the FIRST listed entry,
so the second entry is grown with the Gibbs-Thomson term (interfacial energy, size
classes) of the first.  Listing the two entries in the opposite order therefore changes
the time grid and the per-phase histories (C11, second sentence).
Exit code 1 = defect present.
"""
import sys, os, warnings
import numpy as np
sys.path.insert(0, os.path.dirname(os.path.abspath(__file__)))
warnings.filterwarnings('ignore')
from _analytic import AnalyticBinaryThermodynamics, compareRuns
from kawin.precipitation import PrecipitateModel, MatrixParameters, PrecipitateParameters

ENTRIES = {'beta_bulk': (0.10, 'bulk'), 'beta_disl': (0.12, 'dislocations')}

def run(order, simTime=100.0):
    therm = AnalyticBinaryThermodynamics({'BETA': dict(xb=0.25, A=8.0, Q=60e3)})
    matrix = MatrixParameters(['B'])
    matrix.volume.setVolume(1e-5, 'VM', 4)
    matrix.initComposition = 0.01
    matrix.nucleationSites.setNucleationDensity(grainSize=1, dislocationDensity=1e15)
    precs = []
    for name in order:
        p = PrecipitateParameters(name, phase='BETA')
        p.gamma = ENTRIES[name][0]
        p.volume.setVolume(1e-5, 'VM', 4)
        p.nucleation.setNucleationType(ENTRIES[name][1])
        precs.append(p)
    m = PrecipitateModel(matrixParameters=matrix, precipitateParameters=precs, thermodynamics=therm)
    m.setPBMParameters(cMin=1e-10, cMax=1e-8, bins=60, minBins=40, maxBins=80)
    m.setTemperature(700.0)
    m.solve(simTime)
    return m

o1 = ['beta_bulk', 'beta_disl']; o2 = o1[::-1]
a, b = run(o1), run(o2)
problems = compareRuns(a, b, o1, o2)
print('final mean radii  order 1:', dict(zip(o1, a.pData.Ravg[-1])), ' order 2:', dict(zip(o2, b.pData.Ravg[-1])))
if problems:
    for p in problems: print('  ' + p)
    print('FAIL'); sys.exit(1)
print('PASS'); sys.exit(0)
