'''
PRE-EXISTING (unmodified tree): the Lebedev sphere quadrature that kawin builds in
kawin/precipitation/parameters/LebedevNodes.loadPoints is NOT exact - not even for degree 2.

Violates: "The sphere quadrature integrates polynomials up to its stated order exactly",
and through it "the Eshelby tensor has its textbook components" (isotropic sphere, default
settings) and, for elongated particles in a cubic matrix, the energy itself (several %;
negative for soft-but-stable crystals).

Cause: the stored generator values are right (expanding each generator to its full octahedral
orbit gives a rule exact to 1e-11 for every monomial up to the stated order), but loadPoints
expands the orbits wrongly:
  * A3 (1,1,1)/sqrt3 points are placed at theta = pi/4, 3pi/4 instead of arccos(+-1/sqrt3);
  * A2 points: the theta list [1,1,1,1,2,2,2,2,3,3,3,3]*pi/4 is paired with the wrong phi blocks
    (gives (+-.5,+-.5,.707) and a second copy of (+-1,0,0),(0,+-1,0) instead of the 8 missing
    (+-1,+-1,0)/sqrt2 , (+-1,0,+1)/sqrt2 ... points);
  * C class (l,l,m): the mirrored point is always built from p[1]; for the generators that list the
    diagonal (phi = pi/4) point second (4 of the 13 in q53, etc.) this duplicates the diagonal point
    8 times and drops the 8 points (pi/2 - p[0], t[0]).
  Point count and weight sum stay right (974/2354/5810, sum w = 1), so nothing looks wrong.
'''
import sys, itertools
import numpy as np
from math import gamma
from kawin.precipitation import StrainEnergy
from kawin.precipitation.parameters.LebedevNodes import loadPoints
import kawin.precipitation.parameters.LebedevNodes as L

def exact(a, b, c):   # (1/4pi) * integral of x^a y^b z^c over the unit sphere
    if a % 2 or b % 2 or c % 2: return 0.0
    return 2*gamma((a+1)/2)*gamma((b+1)/2)*gamma((c+1)/2)/gamma((a+b+c+3)/2)/(4*np.pi)

bad = False
for order in (53, 83, 131):
    phi, theta, w = loadPoints(order)
    x, y, z = np.sin(theta)*np.cos(phi), np.sin(theta)*np.sin(phi), np.cos(theta)
    nuniq = len(np.unique(np.round(np.array([x, y, z]).T, 9) + 0.0, axis=0))
    firstFail = None
    for deg in range(0, order+1):
        worst = 0
        for a in range(deg+1):
            for b in range(deg-a+1):
                c = deg-a-b
                e = exact(a, b, c); v = np.sum(w*x**a*y**b*z**c)
                worst = max(worst, abs(v-e)/(abs(e) if e else 1))
        if worst > 1e-9:
            firstFail = (deg, worst); break
    print(f'order {order}: {len(w)} nodes ({nuniq} distinct), sum w = {w.sum():.12f}, first degree not integrated exactly: {firstFail}')
    print(f'     <x^2> = {np.sum(w*x*x):.6f}  <z^2> = {np.sum(w*z*z):.6f} (exact 1/3);  <xy> = {np.sum(w*x*y):.2e} (exact 0)')
    bad |= firstFail is not None

# reference: same generators, full octahedral orbits -> exact
def orbit(v):
    s = set()
    for perm in itertools.permutations(range(3)):
        for sg in itertools.product([1, -1], repeat=3):
            s.add(tuple(np.round(np.array(v)[list(perm)]*sg, 13) + 0.0))
    return np.array(sorted(s))
sph = lambda p, t: np.array([np.sin(t)*np.cos(p), np.sin(t)*np.sin(p), np.cos(t)])
def truePoints(node):
    P, W = [], []
    for n in node:
        o = orbit({'A1': [1, 0, 0], 'A2': [2**-.5, 2**-.5, 0], 'A3': [3**-.5]*3}.get(n[0], None) if n[0][0] == 'A' else sph(n[2][0], n[3][0]))
        P.append(o); W += [n[1]]*len(o)
    P = np.vstack(P)
    return np.arctan2(P[:, 1], P[:, 0]), np.arccos(np.clip(P[:, 2], -1, 1)), np.array(W)
pt, tt, wt = truePoints(L.q131)
xt, yt, zt = np.sin(tt)*np.cos(pt), np.sin(tt)*np.sin(pt), np.cos(tt)
print(f'same generators expanded to full octahedral orbits: {len(wt)} nodes, <x^2> = {np.sum(wt*xt*xt):.12f}, <x^4 y^2> rel.err = {np.sum(wt*xt**4*yt**2)/exact(4,2,0)-1:.1e}')

# consequence 1: Eshelby tensor of a sphere in an isotropic matrix, default settings
G, nu = 57.1e9, 0.33
se = StrainEnergy('ellipsoid'); se.setModuli(G=G, nu=nu); se.setEigenstrain(0.01)
d = se.description
S = d.Sijmn(d.Dijkl(np.ones(3), se.params.cMatrix_4th))
text = {'S1111': (7-5*nu)/(15*(1-nu)), 'S3333': (7-5*nu)/(15*(1-nu)), 'S1122': (5*nu-1)/(15*(1-nu)), 'S1212': (4-5*nu)/(15*(1-nu)), 'S1112': 0.0}
got = {'S1111': S[0,0,0,0], 'S3333': S[2,2,2,2], 'S1122': S[0,0,1,1], 'S1212': S[0,1,0,1], 'S1112': S[0,0,0,1]}
for k in text:
    print(f'  isotropic sphere {k}: kawin {got[k]:+.6f}  textbook {text[k]:+.6f}')
    bad |= abs(got[k]-text[k]) > 1e-6

# consequence 2: energies. Cu-like cubic matrix, needle of aspect ratio 5, default 'high' order
se = StrainEnergy('ellipsoid'); se.setElasticConstants(168.4e9, 121.4e9, 75.4e9); se.setEigenstrain([0.022, 0.022, 0.003])
r = np.array([1., 1., 5.])
Ek = se.compute(r)
se.description.midPhiGrid, se.description.midThetaGrid, se.description.midWeights = pt, tt, wt
Et = se.compute(r)
se.description.setIntegrationIntervals(200, 200); Eg = se.compute(r)
print(f'  Cu-like needle AR=5: kawin Lebedev(131) {Ek:.6e}; correct orbits {Et:.6e}; 200x200 midpoint grid {Eg:.6e};  kawin error {Ek/Et-1:+.2%}')
bad |= abs(Ek/Et-1) > 1e-3

# consequence 3: negative energy for a mechanically stable (soft C\') cubic crystal at moderate aspect ratio
se = StrainEnergy('ellipsoid'); se.setElasticConstants(296.058e9, 292.567e9, 102.173e9); se.setEigenstrain([-0.00510459, 0.00407308, -0.00917684])
r = np.array([1., 0.10600695, 1.98186939])
Ek = se.compute(r)
se.description.midPhiGrid, se.description.midThetaGrid, se.description.midWeights = pt, tt, wt
Et = se.compute(r)
print(f'  stable cubic (c11-c12>0, c11+2c12>0, c44>0), semi-axes 1 : 0.106 : 1.98 : kawin energy {Ek:.4e} (negative), correct orbits {Et:.4e}')
bad |= Ek < 0

print('FAIL (defect present)' if bad else 'PASS')
sys.exit(1 if bad else 0)
