import sys; sys.path.insert(0,'/tmp/wt/C02.out')
from existing_mock import *
m = makeModel(pbm=dict(cMin=1e-10, cMax=1e-8, bins=96, minBins=50, maxBins=100))
m.setup()
pbm = m.PBM[0]
r = pbm.PSDsize
psd = 1e18*(r>2e-9)*np.exp(-(r-2e-9)/0.4e-9)
psd[psd<1]=0
psd[-1] = 5.0
pbm.PSD = psd.copy()
m.solve(1.0, solverType=SolverType.EXPLICITEULER, verbose=False)
N = m.pData.precipitateDensity[:,0]
print(m.pData.n, pbm.bins, N[:5], m.pData.nucRate[:5,0], np.diff(N[1:6])/N[1:5])
print(m.pData.time[:5])
