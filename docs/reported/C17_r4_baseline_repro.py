# Reproducer on the UNMODIFIED tree: post-processing mutates the cached MobilityData in place,
# so with the cache enabled the answer at a point depends on what post-processing was used before.
import numpy as np
from types import SimpleNamespace
from kawin.diffusion.DiffusionParameters import HashTable, MobilityData, computeMobility
from kawin.diffusion.HomogenizationParameters import HomogenizationParameters, computeHomogenizationFunction

therm = SimpleNamespace(numElements=3, elements=['A','B','C'], phases=['ALPHA','BETA'], mobCallables={})
x, T = np.array([0.3, 0.2]), 1000.0
def fresh():
    ht = HashTable()
    ht.addToHashTable(x, T, MobilityData(mobility=np.array([[1e-20,2e-20],[5e-20,-1.0]]), phases=np.array(['ALPHA','BETA']),
                                         phase_fractions=np.array([0.6,0.4]), chemical_potentials=np.zeros(2)))
    return ht
none = HomogenizationParameters('wiener upper', postProcessFunction='none')
excl = HomogenizationParameters('wiener upper', postProcessFunction='exclude', postProcessArgs=['BETA'])
ht = fresh()
a, _ = computeHomogenizationFunction(therm, x, T, none, ht)
computeHomogenizationFunction(therm, x, T, excl, ht)
b, _ = computeHomogenizationFunction(therm, x, T, none, ht)
print('none, first :', a)
print('none, after an exclude evaluation of the same point:', b)
print('cached phase fractions now:', computeMobility(therm, x, T, ht).phase_fractions)
