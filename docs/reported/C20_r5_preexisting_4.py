'''
Pre-existing (unmodified tree): a multicomponent surrogate whose curvature model was trained with integer-valued temperatures
(T = [1073, 1123], np.arange(...)) cannot be saved: toJson raises TypeError (int64 is not JSON serializable) and leaves a truncated file.

trainCurvature stores 'T' as a python list of the numpy scalars it iterates over (TSuccess.append(Ti)); NumpyEncoder only converts
ndarrays and lists, np.float64 happens to be a float subclass but np.int64 is not an int.  trainDrivingForce/trainDiffusivity with
the same T work (they store T as an ndarray).

Sentence of C20: "a surrogate rebuilt from its saved file gives the same predictions as the original" (for all training grids).
'''
import sys, os, tempfile, warnings
warnings.filterwarnings('ignore')
import numpy as np
from kawin.tests.datasets import NICRAL_TDB
from kawin.thermo import MulticomponentThermodynamics, MulticomponentSurrogate

therm = MulticomponentThermodynamics(NICRAL_TDB, ['NI', 'CR', 'AL'], ['FCC_A1', 'FCC_L12'], drivingForceMethod='approximate')
therm.setDFSamplingDensity(2000)
therm.setEQSamplingDensity(500)
x = [[0.06, 0.08], [0.06, 0.1], [0.06, 0.12], [0.08, 0.08], [0.08, 0.1], [0.08, 0.12], [0.1, 0.08], [0.1, 0.1], [0.1, 0.12]]
T = [1073, 1123]

surr = MulticomponentSurrogate(therm)
surr.trainDrivingForce(x, T)
surr.trainCurvature(x, T)
f = os.path.join(tempfile.mkdtemp(), 'nicral.json')
try:
    surr.toJson(f)
    surr2 = MulticomponentSurrogate(therm)
    surr2.fromJson(f)
    q = ([0.08, 0.1], 1100)
    c, c2 = surr.curvatureFactor(*q), surr2.curvatureFactor(*q)
    same = all(np.array_equal(a, b) for a, b in zip(c, c2))
except Exception as e:
    print('saving/rebuilding failed:', repr(e))
    same = False
if not same:
    print('FAIL')
    sys.exit(1)
print('PASS')
