'''
Pre-existing, borderline (unmodified tree): for the shipped Al-Zr data (also examples/AlScZr.tdb) only the
solute has DF/DQ parameters.  MobilityModel.build_mobility turns the missing parameters of the other
element into exp(0/RT) = 1, so getTracerDiffusivity reports a tracer diffusivity of exactly 1.0 m^2/s for Al
at every composition and temperature (independent of T), about 1e15-1e20 times any physical value, with no
warning.  The value is consumed by kawin.precipitation.NucleationRate.betaBinary2 (term with D[:,0]).

Property sentence concerned: title "Diffusivities are physically valid" / "Tracer diffusivities are positive
and equal R*T times mobility" (no mobility exists for this phase; the number is a silent default).

Exit 1 (FAIL) on the unmodified tree.
'''
import sys, warnings
import numpy as np
warnings.filterwarnings('ignore')
from kawin.thermo import BinaryThermodynamics
from kawin.tests.datasets import ALZR_TDB

therm = BinaryThermodynamics(ALZR_TDB, ['AL', 'ZR'], ['FCC_A1', 'AL3ZR'])
ok = True
for x, T in [(0.004, 673.15), (0.001, 500.0), (0.01, 900.0)]:
    Dt = therm.getTracerDiffusivity(x, T)
    # Al self diffusion in fcc Al is < 1e-11 m^2/s below the melting point; liquids are ~1e-9 m^2/s
    good = np.all(Dt > 0) and np.all(Dt < 1e-6)
    print('x_ZR=%g T=%g  tracer diffusivity (AL, ZR) = %s  %s' % (x, T, Dt.tolist(), 'ok' if good else 'UNPHYSICAL'))
    ok = ok and good
print('PASS' if ok else 'FAIL')
sys.exit(0 if ok else 1)
