"""
Observation on the UNMODIFIED code (not one of the two changes):
a condition that already holds at the state *before* the first step on which it is tested
(initial state of the run, or a condition added to a model that has already been solved past
the threshold) gets a satisfied time that is extrapolated outside that step (or inf/nan when
the quantity did not change), because testCondition interpolates between n-1 and n without
checking that the threshold lies between the two values.
"""
import warnings
import numpy as np
from types import SimpleNamespace
from kawin.precipitation.StoppingConditions import VolumeFractionCondition, Inequality
warnings.simplefilter('ignore')

def fake(time, volFrac):
    pData = SimpleNamespace(n=len(time)-1, time=np.array(time, dtype=float), volFrac=np.array(volFrac, dtype=float).reshape(-1, 1))
    return SimpleNamespace(pData=pData, phaseIndex=lambda phase=None: 0)

# 1) "f < 0.1" is true from the start (f = 0 at t = 0); first test happens at step 1, t in [0, 0.5]
c = VolumeFractionCondition(Inequality.LESSER_THAN, 0.1)
c.testCondition(fake([0, 0.5], [0.0, 1e-4]))
print('f < 0.1, f: 0 -> 1e-4 on [0, 0.5]   -> satisfiedTime =', c.satisfiedTime(), '(expected within [0, 0.5])')

c = VolumeFractionCondition(Inequality.LESSER_THAN, 0.1)
c.testCondition(fake([0, 0.5], [0.0, 0.0]))
print('f < 0.1, f: 0 -> 0 on [0, 0.5]      -> satisfiedTime =', c.satisfiedTime())

# 2) condition added after the threshold was passed: f > 0.2 with f: 0.50 -> 0.51 on [100, 101]
c = VolumeFractionCondition(Inequality.GREATER_THAN, 0.2)
c.testCondition(fake([0, 100, 101], [0.0, 0.50, 0.51]))
print('f > 0.2, f: 0.50 -> 0.51 on [100,101] -> satisfiedTime =', c.satisfiedTime(), '(expected within the step, got a time before it)')
