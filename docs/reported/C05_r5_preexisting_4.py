'''
Unmodified tree (low severity, type edge): getDt returns the step as a 1-element array (e.g. the result of a
reduction with keepdims) or getCurrentX returns the time as a 1-element array.  The solver clock then becomes an
ndarray that is advanced in place ("currTime += dt"), and that same object is handed to postProcess at every step:
a model that keeps the accepted times (list.append(time)) ends up with every entry equal to the final time.
Violates: "accepted times are strictly increasing" as observed by the model.  (The docstrings call dt and t "float".)
'''
import sys, os
sys.path.insert(0, os.path.dirname(os.path.abspath(__file__)))
import numpy as np
from _toy import Toy

class ArrDt(Toy):
    def getDt(self, dXdt):
        return np.array([0.25])

m = ArrDt([0])
m.solve(1.0)
t = np.array([float(np.ravel(x)[0]) for x in m.accepted])
if not np.all(np.diff(t) > 0):
    print('FAIL'); print('  times kept by the model: %r' % (m.accepted,)); sys.exit(1)
print('PASS')
