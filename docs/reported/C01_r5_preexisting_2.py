"""
Pre-existing (unmodified tree): continuing a saved run (save -> load into a fresh model -> solve) throws
the whole precipitate population away, and the solute it held reappears in the matrix within one step.

PrecipitateModel.fromDict restores pData and the size distributions, but the fresh model is not "set up",
so the next solve() runs setup() -> _setupAspectRatio() -> PBM[p].reset(), which zeroes the loaded PSD
(and resets its size classes) while pData[n] (fconc, volFrac, depleted matrix composition) is kept.

C01: "... across repeated solve calls": at the step the second solve call starts from, the recorded
precipitate solute fconc[n] is > 0 although the size distribution the model continues with is empty
(the content is no longer "what one obtains by summing ... over the size distribution"), and one step
later the matrix composition is back at the alloy composition.  (The identity
x0 = (1-fv)*x + fconc itself holds for the recorded numbers of every step.)
Exit 1 if the precipitates are lost on continuing.
"""
import sys, os, tempfile, warnings
import numpy as np
warnings.filterwarnings('ignore')
from kawin.precipitation import PrecipitateModel, VolumeParameter
from kawin.solver import SolverType

R_GAS = 8.314
XBETA = 0.25

class AnalyticBinaryTherm:
    numElements = 2
    def xeq(self, T):
        return 5e-4*np.exp(-60000/R_GAS*(1/T - 1/723.15))
    def getDrivingForce(self, x, T, precPhase=None, removeCache=False, **kw):
        x = np.clip(np.atleast_1d(np.squeeze(x)).astype(float), 1e-300, 1-1e-12)
        T = np.atleast_1d(T).astype(float)
        xe = self.xeq(T)
        dg = R_GAS*T*(XBETA*np.log(x/xe) + (1-XBETA)*np.log((1-x)/(1-xe)))
        return dg, XBETA*np.ones(dg.shape)
    def getInterfacialComposition(self, T, gExtra=0, precPhase=None):
        T = float(np.atleast_1d(T)[0])
        g = np.atleast_1d(gExtra).astype(float)
        xa = self.xeq(T)*np.exp(g/(R_GAS*T*XBETA))
        bad = xa > 0.1
        xa, xb = np.where(bad, -1.0, xa), np.where(bad, -1.0, XBETA)
        if np.ndim(gExtra) == 0:
            return float(xa[0]), float(xb[0])
        return xa, xb
    def getInterdiffusivity(self, x, T, removeCache=False, **kw):
        return 7.68*np.exp(-242000/(R_GAS*np.squeeze(T)))
    def getTracerDiffusivity(self, x, T, removeCache=False, **kw):
        d = 7.68*np.exp(-242000/(R_GAS*np.atleast_1d(T)))
        return np.stack([d, d], axis=-1)

def makeModel():
    m = PrecipitateModel(phases=['BETA'], elements=['B'])
    m.setPBMParameters(cMin=1e-10, cMax=1e-8, bins=75, minBins=50, maxBins=100)
    m.setInitialComposition(4e-3)
    m.setTemperature(723.15)
    m.setInterfacialEnergy(0.1)
    a = 0.405e-9
    m.setVolumeAlpha(a**3, VolumeParameter.ATOMIC_VOLUME, 4)
    m.setVolumeBeta(a**3, VolumeParameter.ATOMIC_VOLUME, 4)
    m.setNucleationDensity(grainSize=1, dislocationDensity=1e15)
    m.setNucleationSite('dislocations')
    m.setThermodynamics(AnalyticBinaryTherm())
    return m

m = makeModel()
m.solve(1e3, solverType=SolverType.EXPLICITEULER)
fname = os.path.join(tempfile.mkdtemp(), 'run.npz')
m.save(fname)

m2 = makeModel()
m2.load(fname)
n = m2.pData.n
K = m2.matrixParameters.volume.Vm/m2.precipitateParameters[0].volume.Vm*m2.precipitateParameters[0].nucleation.volumeFactor
content = lambda mod: K*XBETA*np.sum(mod.PBM[0].PSD*mod.PBM[0].PSDsize**3)
print('after load     : step %d, fconc = %.4e, sum over loaded size distribution = %.4e, matrix = %.6f' % (n, m2.pData.fconc[n,0,0], content(m2), m2.pData.composition[n,0]))
m2.solve(1e-3, solverType=SolverType.EXPLICITEULER)     #continue for a millisecond
print('after continuing for 1 ms (%d more steps): fconc = %.4e, sum over size distribution = %.4e, matrix = %.6f'
      % (m2.pData.n - n, m2.pData.fconc[-1,0,0], content(m2), m2.pData.composition[-1,0]))

#reference: the original model continued directly
m.solve(1e-3, solverType=SolverType.EXPLICITEULER)
print('original model continued for 1 ms                : fconc = %.4e, matrix = %.6f' % (m.pData.fconc[-1,0,0], m.pData.composition[-1,0]))

lost = m2.pData.fconc[-1,0,0] < 0.5*m2.pData.fconc[n,0,0]
print('FAIL (precipitates and their solute are dropped when a loaded run is continued)' if lost else 'PASS')
sys.exit(1 if lost else 0)
