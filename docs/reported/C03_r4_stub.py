import numpy as np
from kawin.precipitation import PrecipitateModel, VolumeParameter

R = 8.314

class StubBinary:
    """Ideal dilute-solution stand-in for BinaryThermodynamics (no pycalphad)."""
    numElements = 2
    def __init__(self, xb=0.25, dH=60000., dS=10., D0=1e-5, Q=120000., failAt=()):
        self.xb, self.dH, self.dS, self.D0, self.Q = xb, dH, dS, D0, Q
    def xeq(self, T):
        return np.exp(self.dS/R - self.dH/(R*T))
    def getInterfacialComposition(self, T, gExtra=0, precPhase=None):
        T = np.atleast_1d(T).astype(float); g = np.atleast_1d(gExtra).astype(float)
        xa = self.xeq(T) * np.exp(g/(self.xb*R*T))
        bad = ~(xa < 0.9*self.xb)
        xa = np.where(bad, -1.0, xa)
        xbv = np.where(bad, -1.0, self.xb*np.ones(xa.shape))
        return np.squeeze(xa), np.squeeze(xbv)
    def getDrivingForce(self, x, T, precPhase=None, removeCache=False):
        x = np.atleast_2d(x); T = np.atleast_1d(T)
        xs = np.clip(x[:,0], 1e-300, None)
        dg = self.xb*R*T*np.log(xs/self.xeq(T))
        return np.squeeze(dg), np.squeeze(self.xb*np.ones(dg.shape))
    def D(self, T):
        return self.D0*np.exp(-self.Q/(R*np.atleast_1d(T)))
    def getTracerDiffusivity(self, x, T, removeCache=False):
        d = self.D(T)
        return np.squeeze(np.stack([d, d], axis=-1))
    def getInterdiffusivity(self, x, T, removeCache=False):
        return np.squeeze(self.D(T))

def binaryModel(therm=None, x0=4e-3, T=723.15, gamma=0.1, site='bulk', **pbm):
    m = PrecipitateModel(phases=['BETA'], elements=['B'])
    if pbm:
        m.setPBMParameters(**pbm)
    m.setInitialComposition(x0)
    m.setTemperature(T) if not isinstance(T, tuple) else m.setTemperature(*T)
    m.setInterfacialEnergy(gamma)
    a = 0.405e-9
    m.setVolumeAlpha(a**3, VolumeParameter.ATOMIC_VOLUME, 4)
    m.setVolumeBeta(a**3, VolumeParameter.ATOMIC_VOLUME, 4)
    m.setNucleationDensity(grainSize=1, dislocationDensity=1e15)
    m.setNucleationSite(site)
    m.setThermodynamics(therm if therm is not None else StubBinary())
    return m

def check(m, tf, label=''):
    d = m.pData
    errs = []
    L = len(d.time)
    if d.time[-1] != tf: errs.append('end time %r != %r' % (d.time[-1], tf))
    if not np.all(np.diff(d.time) > 0): errs.append('time not strictly increasing')
    for name in d.ATTRIBUTES:
        a = getattr(d, name)
        if len(a) != L: errs.append('len %s' % name)
        if not np.all(np.isfinite(a)): errs.append('nonfinite %s' % name)
    for name in ['composition', 'xEqAlpha', 'xEqBeta', 'volFrac']:
        a = getattr(d, name)
        if np.any(a < 0) or np.any(a > 1): errs.append('range %s' % name)
    if np.any(np.sum(d.volFrac, axis=1) > 1): errs.append('total vf')
    for name in ['Ravg', 'Rcrit', 'precipitateDensity', 'Rnuc']:
        if np.any(getattr(d, name) < 0): errs.append('neg %s' % name)
    for pbm in m.PBM:
        if np.any(pbm.PSD < 0) or not np.all(np.isfinite(pbm.PSD)): errs.append('PSD')
        if len(pbm.PSD) != pbm.bins or len(pbm.PSDbounds) != pbm.bins+1: errs.append('PSD shape')
        if pbm._record:
            if not (len(pbm._recordedTime) == len(pbm._recordedPSD) == len(pbm._recordedBins)): errs.append('rec len')
            if len(pbm._recordedTime) != L: errs.append('rec len vs time %d %d' % (len(pbm._recordedTime), L))
            if np.any(pbm._recordedPSD < 0): errs.append('rec PSD neg')
    return errs

class StubMulti:
    """Quasi-binary ternary stand-in for MulticomponentThermodynamics. failCalls: set of indices of
    getGrowthAndInterfacialComposition calls (0-based) that return None; failFn(callIndex)->bool alternative."""
    numElements = 3
    def __init__(self, xb=(0.25, 0.02), dH=60000., dS=10., D0=1e-5, Q=120000., failCalls=(), failFn=None):
        self.xb = np.array(xb, dtype=float); self.dH, self.dS, self.D0, self.Q = dH, dS, D0, Q
        self.failCalls = set(failCalls); self.failFn = failFn; self.calls = 0; self.log = []
    def xeq(self, T):
        return np.exp(self.dS/R - self.dH/(R*T))
    def D(self, T):
        return self.D0*np.exp(-self.Q/(R*T))
    def getDrivingForce(self, x, T, precPhase=None, removeCache=False):
        x = np.atleast_2d(x); T = np.atleast_1d(T)
        xs = np.clip(x[:,0], 1e-300, None)
        dg = self.xb[0]*R*T*np.log(xs/self.xeq(T))
        comp = np.repeat(self.xb[None,:], len(dg), axis=0)
        return np.squeeze(dg), np.squeeze(comp)
    def getGrowthAndInterfacialComposition(self, x, T, dG, Rad, gExtra, precPhase=None, removeCache=False, searchDir=None):
        i = self.calls; self.calls += 1
        fail = (i in self.failCalls) or (self.failFn is not None and self.failFn(i, x, T, dG))
        self.log.append((i, fail, float(np.atleast_1d(dG)[0])))
        if fail:
            return None
        x = np.atleast_1d(x).astype(float)
        Rad = np.atleast_1d(Rad).astype(float); g = np.atleast_1d(gExtra).astype(float)
        if len(g) != len(Rad): g = g*np.ones(len(Rad))
        xa0 = np.clip(self.xeq(T)*np.exp(g/(self.xb[0]*R*T)), 0, 0.9*self.xb[0])
        gr = self.D(T)/Rad * (x[0]-xa0)/(self.xb[0]-xa0)
        xal = np.stack([xa0, x[1]*np.ones(len(Rad))], axis=1)
        xbe = np.repeat(self.xb[None,:], len(Rad), axis=0)
        return np.squeeze(gr), np.squeeze(xal), np.squeeze(xbe), np.array([self.xeq(T), x[1]]), self.xb.copy()
    def impingementFactor(self, x, T, precPhase=None, removeCache=False, searchDir=None):
        x = np.atleast_1d(x)
        return self.D(T)*x[0]/(self.xb[0]-x[0])**2

def multiModel(therm=None, x0=(4e-3, 1e-2), T=723.15, gamma=0.1, site='bulk', phases=('BETA',), **pbm):
    m = PrecipitateModel(phases=list(phases), elements=['B', 'C'])
    if pbm:
        m.setPBMParameters(**pbm)
    m.setInitialComposition(list(x0))
    m.setTemperature(T) if not isinstance(T, tuple) else m.setTemperature(*T)
    a = 0.405e-9
    m.setVolumeAlpha(a**3, VolumeParameter.ATOMIC_VOLUME, 4)
    for p in phases:
        m.setInterfacialEnergy(gamma, phase=p)
        m.setVolumeBeta(a**3, VolumeParameter.ATOMIC_VOLUME, 4, phase=p)
        m.setNucleationSite(site, phase=p)
    m.setNucleationDensity(grainSize=1, dislocationDensity=1e15)
    m.setThermodynamics(therm if therm is not None else StubMulti())
    return m
