'''
Pre-existing (unmodified tree), lower confidence (the docstring of trainInterfacialComposition says the fit is in 1/gExtra):
a BinarySurrogate trained for the interfacial composition over a gExtra grid
 (a) cannot contain the planar interface gExtra = 0 in its training grid (1/0 = inf goes into the RBF fit: LinAlgError / NaN), and
 (b) returns NaN for gExtra = 0, which is the *default* argument of getInterfacialComposition and what PrecipitateModel asks for
     (_createLookupBinary calls therm.getInterfacialComposition(T, 0, ...) for the equilibrium compositions).

Sentence of C20: "a trained surrogate reproduces its training data at the training points" (grid containing gExtra = 0).
'''
import sys, warnings
warnings.filterwarnings('ignore')
import numpy as np
from kawin.tests.datasets import ALZR_TDB
from kawin.thermo import BinaryThermodynamics, BinarySurrogate

therm = BinaryThermodynamics(ALZR_TDB, ['AL', 'ZR'], ['FCC_A1', 'AL3ZR'], drivingForceMethod='approximate')
therm.setDFSamplingDensity(2000)
therm.setEQSamplingDensity(500)
T = np.array([673.15, 723.15, 773.15])
bad = []

surr = BinarySurrogate(therm)
try:
    surr.trainInterfacialComposition(T, [0, 1000, 5000, 10000])
    data = surr.interfacialCompositionData['AL3ZR']
    xa, xb = surr.getInterfacialComposition(data['T'], data['gExtra'])
    if not np.allclose(xa, data['xpalpha'], rtol=1e-5, atol=0):
        bad.append('training data not reproduced: %s vs %s' % (xa, data['xpalpha']))
except Exception as e:
    bad.append('training grid containing gExtra = 0: ' + repr(e))

surr = BinarySurrogate(therm)
surr.trainInterfacialComposition(T, np.linspace(100, 10000, 5))
xa, xb = surr.getInterfacialComposition(700.0)          #default gExtra = 0
xaT, xbT = therm.getInterfacialComposition(700.0)
if not np.isfinite(xa):
    bad.append('trained surrogate at default gExtra=0: %s (thermodynamics: %s)' % (xa, xaT))
if bad:
    print('\n'.join(bad))
    print('FAIL')
    sys.exit(1)
print('PASS')
