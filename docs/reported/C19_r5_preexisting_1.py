'''
Pre-existing (unmodified tree): a TTPCalculator only registers its conditions on the model in its constructor.
Building a second TTPCalculator on the same model (constructor calls model.clearStoppingConditions()) silently
detaches the conditions of the first one: they are then neither polled nor reset by model.reset(), so the first
calculator reports -1 ('not reached') - or, if it was used before, the stale time of its earlier calculation -
for every temperature, although the monitored quantity crosses the threshold well within maxTime.
Violates: '... and is what the time-temperature-precipitation calculator reports for each temperature after resetting the model.'
'''
import sys, warnings, io, contextlib
warnings.filterwarnings('ignore')
import numpy as np
from kawin.GenericModel import Coupler
from kawin.precipitation import PrecipitateBase, TTPCalculator
from kawin.precipitation.StoppingConditions import Inequality, VolumeFractionCondition, AverageRadiusCondition

class ScriptedModel(PrecipitateBase):
    '''script(t) -> dict attribute name -> values for each phase (or element)'''
    def __init__(self, phases, elements, script, dt):
        super().__init__(phases=phases, elements=elements)
        self.script, self.dt, self.growth = script, dt, None
        self.setInitialComposition(0.01 if len(elements) == 1 else [0.01]*len(elements))
        self.setTemperature(500)
        self.setVolumeAlpha(1e-5, 'VM', 4)
        for ph in phases:
            self.setVolumeBeta(1e-5, 'VM', 4, phase=ph)
    def _fill(self, Y, t):
        for k, v in self.script(t).items():
            getattr(Y, k)[0] = v
        return Y
    def setup(self):
        if self._isSetup:
            return
        super().setup()
        self.pData.setSlice(self._fill(self.pData.copySlice(0), 0.0), 0)
    def getCurrentX(self): return self.pData.time[self.pData.n], [np.zeros(1)]
    def getDt(self, dXdt): return self.dt
    def _processX(self, x): pass
    def _calcMassBalance(self, t, x, Y): return self._fill(Y, t)
    def _calcNucleationRate(self, t, x, Y): return Y
    def _growthRate(self, Y): return None, Y
    def _getdXdt(self, t, x, Y, growth): return [np.zeros(1)]
    def _correctdXdt(self, dt, x, dXdt, Y, growth): pass
    def _updateParticleSizeDistribution(self, t, x): pass


def makeModel():
    #volume fraction grows faster at higher temperature: crosses 0.05 at t = 5*500/T ; radius shrinks through 5e-9 at t = 5
    m = ScriptedModel(['A'], ['X'], None, dt=0.3)
    m.script = lambda t: dict(volFrac=[0.01*t*m.temperatureParameters(t)/500], Ravg=[1e-9*(10 - t)])
    return m

quiet = contextlib.redirect_stdout(io.StringIO())
temps = np.linspace(400, 600, 3)
expected = 5*500/temps

ok = True
#Reference: a single calculator
m = makeModel()
c1 = VolumeFractionCondition(Inequality.GREATER_THAN, 0.05)
calc1 = TTPCalculator(m, [c1])
with quiet:
    calc1.calculateTTP(400, 600, 3, 20)
ref = calc1.transformationTimes[:,0].copy()
print('single calculator          :', ref, ' expected', expected)
ok = ok and np.allclose(ref, expected, rtol=0, atol=1e-9)

#Sequence 1: second calculator created on the same model before the first one is used
m = makeModel()
c1 = VolumeFractionCondition(Inequality.GREATER_THAN, 0.05)
c2 = AverageRadiusCondition(Inequality.LESSER_THAN, 5e-9)
calc1 = TTPCalculator(m, [c1])
calc2 = TTPCalculator(m, [c2])
with quiet:
    calc1.calculateTTP(400, 600, 3, 20)
print('calc1 after calc2 was built:', calc1.transformationTimes[:,0])
ok = ok and np.allclose(calc1.transformationTimes[:,0], expected, rtol=0, atol=1e-9)

#Sequence 2: calc1 used, calc2 built, calc1 used again over another temperature range
m = makeModel()
c1 = VolumeFractionCondition(Inequality.GREATER_THAN, 0.05)
calc1 = TTPCalculator(m, [c1])
with quiet:
    calc1.calculateTTP(400, 600, 3, 20)
calc2 = TTPCalculator(m, [AverageRadiusCondition(Inequality.LESSER_THAN, 5e-9)])
with quiet:
    calc1.calculateTTP(450, 550, 3, 20)
exp2 = 5*500/np.linspace(450, 550, 3)
print('calc1 re-used after calc2  :', calc1.transformationTimes[:,0], ' expected', exp2)
ok = ok and np.allclose(calc1.transformationTimes[:,0], exp2, rtol=0, atol=1e-9)

print('PASS' if ok else 'FAIL')
sys.exit(0 if ok else 1)
