'''
Pre-existing defect 2 (unmodified tree): the schedule that is in force when setup() runs is frozen
into step 0.  setup() is public (the package's own tests call it to look at the initial state) and
returns early on every later call, so the sequence
        model.setup();  model.setTemperature(<other schedule>);  model.solve(...)
leaves pData.temperature[0] (and the nucleation/growth terms of step 0 and, for binary systems, the
lookup table the first step starts from) at the OLD schedule, while every later step follows the new
one.  The same happens for TemperatureParameters handed to the constructor and changed afterwards.
(setGrainBoundaryEnergy after setup() was repaired for the same reason; setTemperature was not.)

Violates the first sentence of C13 ("The temperature recorded at each step equals the user schedule
evaluated at that step's time ... through the constructor parameter object or through the setter").

exit 0 / PASS: every recorded temperature equals the schedule of the model at the recorded time
exit 1 / FAIL: otherwise
'''
import sys
import numpy as np
from kawin.precipitation import PrecipitateModel, VolumeParameter
from kawin.solver.Solver import SolverType

R = 8.314
class Therm:
    numElements = 2
    Q, xB, D0, QD = 60000., 0.25, 1e-4, 150000.
    def clearCache(self): pass
    def xEq(self, T, g=0.): return np.exp((-self.Q + np.asarray(g)/self.xB) / (R*T))
    def getInterfacialComposition(self, T, gExtra=0, precPhase=None):
        T = np.atleast_1d(np.asarray(T, dtype=float)); g = np.atleast_1d(np.asarray(gExtra, dtype=float))
        xa = self.xEq(T, g); xb = self.xB*np.ones(xa.shape)
        bad = xa >= xb
        return np.squeeze(np.where(bad, -1., xa)), np.squeeze(np.where(bad, -1., xb))
    def getDrivingForce(self, x, T, precPhase=None, removeCache=False, training=False):
        x = np.atleast_1d(np.squeeze(x)).astype(float); T = np.atleast_1d(T).astype(float)
        dg = self.xB*R*T*np.log(x/self.xEq(T))
        return np.squeeze(dg), np.squeeze(self.xB*np.ones(dg.shape))
    def getInterdiffusivity(self, x, T, removeCache=False, phase=None):
        return np.squeeze(self.D0*np.exp(-self.QD/(R*np.atleast_1d(T).astype(float))))
    def getTracerDiffusivity(self, x, T, removeCache=False, phase=None):
        d = self.D0*np.exp(-self.QD/(R*np.atleast_1d(T).astype(float)))
        return np.squeeze(np.stack([d, d], axis=-1))

def build():
    m = PrecipitateModel(phases=['BETA'], elements=['B'], thermodynamics=Therm())
    m.setPBMParameters(cMin=1e-10, cMax=1e-8, bins=75, minBins=50, maxBins=100)
    m.setInitialComposition(0.01)
    m.setInterfacialEnergy(0.1)
    m.setVolumeAlpha(1e-5, VolumeParameter.MOLAR_VOLUME, 4)
    m.setVolumeBeta(1e-5, VolumeParameter.MOLAR_VOLUME, 4)
    m.setNucleationDensity(grainSize=1, dislocationDensity=1e15)
    return m

m = build()
m.setTemperature(700.)
m.setup()                       #e.g. to look at the initial driving force
m.setTemperature(750.)          #the run itself is to be done at 750 K
m.solve(0.5, solverType=SolverType.EXPLICITEULER)

ref = build()
ref.setTemperature(750.)
ref.solve(0.5, solverType=SolverType.EXPLICITEULER)

p = m.pData
dev = np.array([abs(p.temperature[i] - m.temperatureParameters(p.time[i])) for i in range(p.n+1)])
same = p.n == ref.pData.n and np.array_equal(p.temperature, ref.pData.temperature) and np.array_equal(p.nucRate, ref.pData.nucRate)
print('recorded temperature of the first steps:', p.temperature[:3], ' schedule: 750 K')
print('largest |recorded - schedule| = %g K at step %d; identical to a model that was given 750 K from the start: %s' % (dev.max(), int(dev.argmax()), same))
ok = dev.max() == 0 and same
print('PASS' if ok else 'FAIL')
sys.exit(0 if ok else 1)
