import numpy as np
from kawin.precipitation import PopulationBalanceModel
# 1. nucleus below grid
p = PopulationBalanceModel(1e-9, 1e-8, 10)
d = p.getdXdtEuler(np.zeros(11), 7.0, 5e-10, np.zeros(10))
print('below-grid nucleation ->', np.nonzero(d)[0])
# 2. single class straddling critical radius, physical law
p = PopulationBalanceModel(1e-9, 1e-8, 10)
psd = np.zeros(10); psd[3] = 1e10
p.PSD = psd.copy()
Rc = p.PSDbounds[3]*1.001
g = 1e-18*(1/Rc - 1/p.PSDbounds)/p.PSDbounds
dt = p.getDTEuler(1e30, g, 0)
d0 = p.getdXdtEuler(g, 0, 0, psd)
d = p.correctdXdtEuler(dt, g, 0, 0, psd)
new = psd + d*dt
print('dt', dt, 'limit check', 0.4*(p.PSDbounds[1]-p.PSDbounds[0])/abs(g[3]), 'new[2:6]/psd', new[2:6]/1e10, 'min', new.min())
# 3. rounding
rng = np.random.default_rng(0)
worst = 0
for k in range(2000):
    p = PopulationBalanceModel(1e-9, 1e-8, 10)
    psd = rng.random(10)*10**rng.uniform(0,20,10)
    g = -np.abs(rng.normal(size=11))*1e-9
    dt = 10**rng.uniform(-3,3)
    p.PSD = psd.copy()
    p.getdXdtEuler(g,0,0,psd)
    d = p.correctdXdtEuler(dt,g,0,0,psd)
    new = psd + d*dt
    # only inflow from right neighbour and own clamp
    worst = min(worst, (new/psd).min())
print('worst relative negativity from rounding', worst)
