'''
Pre-existing (unmodified tree), boundary value cMin = 0: "Grain growth conserves total grain volume" /
"the mean grain size never decreases" - both become NaN after the first step.

PopulationBalanceModel explicitly supports a lower bound of 0 (see the `self.min == 0` branches), but
GrainGrowthModel.grainGrowth evaluates 1/PSDbounds, which is -inf at the bound 0; with an empty first
size class the flux is -inf*0 = NaN, UpdatePBMEuler's `PSD[PSD < 1] = 0` does not remove NaN, and
Normalize() spreads it over the whole distribution.

exit 1 (and prints FAIL) if the volume / mean size are not finite after one solve call
'''
import sys, warnings
import numpy as np
warnings.filterwarnings('ignore')
from kawin.precipitation.coupling import GrainGrowthModel

np.random.seed(0)
g = GrainGrowthModel(cMin=0, cMax=5e-6)
g.LoadDistribution(np.random.lognormal(mean=np.log(1e-6), sigma=0.2, size=100000))
print('before: volume {:.6f}, mean radius {:.6e}'.format(g.pbm.ThirdMoment(), g.avgR[-1]))
g.solve(10.0)
print('after : volume {}, mean radius {}, NaN entries in the distribution: {} of {}'.format(g.pbm.ThirdMoment(), g.avgR[-1], int(np.isnan(g.pbm.PSD).sum()), g.pbm.bins))
if not (np.isfinite(g.pbm.ThirdMoment()) and abs(g.pbm.ThirdMoment() - 1) < 1e-9 and np.all(np.isfinite(g.avgR)) and np.all(np.diff(g.avgR) >= 0)):
    print('FAIL: grain volume / mean grain size are not finite with cMin = 0')
    sys.exit(1)
print('PASS')
sys.exit(0)
