"""
Reproducers for C03 violations of the UNMODIFIED tree (found while reading; analytic stand-in backends, no pycalphad).
Run: cd /tmp/wt/C03 && PYTHONPATH=/tmp/wt/C03 /venv/bin/python /tmp/wt/C03.out/existing/existing_violations.py
"""
import sys, os, warnings, traceback
sys.path.insert(0, os.path.dirname(os.path.abspath(__file__)))
warnings.filterwarnings('ignore')
import numpy as np
from stub import StubBinary, StubMulti, binaryModel, multiModel, check
from kawin.solver.Solver import SolverType

class Abort(Exception): pass
class Watchdog:
    def updateCoupledModel(self, model):
        d = model.pData
        for name in d.ATTRIBUTES:
            if not np.all(np.isfinite(getattr(d, name)[d.n])):
                raise Abort('non-finite %s recorded at step %d (t=%g)' % (name, d.n, d.time[d.n]))

def run(label, m, tf, st=SolverType.EXPLICITEULER):
    m.addCouplingModel(Watchdog())
    try:
        m.solve(tf, solverType=st)
        print('%-70s -> %s' % (label, check(m, tf) or 'ok'))
    except Abort as e:
        print('%-70s -> VIOLATION: %s' % (label, e))
    except Exception as e:
        print('%-70s -> CRASH: %s: %s' % (label, type(e).__name__, e))

pbm = dict(cMin=1e-10, cMax=1e-8, bins=75, minBins=50, maxBins=100)

# 1. binary: backend returns the 'no result' sentinel (-1) for the size classes that were just appended to the grid
class FailingBinary(StubBinary):
    def __init__(self, failIdx):
        super().__init__(); self.n = 0; self.failIdx = set(failIdx)
    def getInterfacialComposition(self, T, gExtra=0, precPhase=None):
        i = self.n; self.n += 1
        g = np.atleast_1d(gExtra)
        if i in self.failIdx:
            return np.squeeze(-1*np.ones(g.shape)), np.squeeze(-1*np.ones(g.shape))
        return super().getInterfacialComposition(T, gExtra, precPhase)
run('1. binary, getInterfacialComposition fails (-1) for newly added classes', binaryModel(FailingBinary([2]), **pbm), 100.)

# 2. multicomponent: the first TWO growth/equilibrium requests after the set-up one return None
run('2. multicomponent, backend returns None for calls #1 and #2', multiModel(StubMulti(failCalls={1, 2}), **pbm), 20.)

# 3. multicomponent outside the two-phase region with PSD recording: recorded PSD history is not aligned with time
m = multiModel(StubMulti(), x0=(1e-5, 1e-2), **pbm); m.setPSDrecording(True)
run('3. multicomponent, single-phase composition, PSD recording on', m, 20.)

# 4. grain boundary nucleation with gbEnergy = 2*gamma exactly (ratio == maxRatio passes validation, factors become -1)
m = binaryModel(site='grain boundaries', gamma=0.1, **pbm); m.setGrainBoundaryEnergy(0.2)
run('4. binary, grain boundary nucleation, gbEnergy == 2*gamma', m, 100.)

# 5. constraint minNucleateDensity = 0: mean radius is 0/0 while there are no precipitates
m = binaryModel(x0=1e-5, **pbm); m.setConstraints(minNucleateDensity=0)
run('5. binary, setConstraints(minNucleateDensity=0), no precipitates', m, 20.)
