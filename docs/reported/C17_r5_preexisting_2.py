'''
Pre-existing (unmodified tree): in a single-phase region whose phase has no mobility data (SIGMA in the
Fe-Cr-Ni test database) hashinShtrikmanLower returns nan and wienerLower returns inf, while the three "upper"
rules return the finite place holder (float tiny).  (3*extreme_mob overflows to inf for extreme_mob = float max,
0*inf = nan; 1/(1/max) overflows.)  nan/inf then enter log(avg_mob) in HomogenizationModel._getFluxes.
Violates: "work in single-phase as well as multi-phase regions" / bound rules return values between the phase
mobilities "for all mobility matrices (including undefined entries) ... phase counts 1-4".
The same nan is produced by a direct call with a single undefined row, or with a column that is undefined in every phase.
'''
import sys, warnings
import numpy as np
warnings.filterwarnings('ignore')
from kawin.thermo import GeneralThermodynamics
from kawin.tests.datasets import FECRNI_DB
from kawin.diffusion.DiffusionParameters import computeMobility
from kawin.diffusion.HomogenizationParameters import HomogenizationParameters as H, computeHomogenizationFunction, hashinShtrikmanLower, wienerLower

bad = []
m = np.array([[-1., -1., -1.]]); f = np.array([1.])
print('direct: HS lower', hashinShtrikmanLower(m.copy(), f.copy()), ' Wiener lower', wienerLower(m.copy(), f.copy()))
if not np.all(np.isfinite(hashinShtrikmanLower(m.copy(), f.copy()))): bad.append('direct call: HS lower of a single undefined phase is not finite')
if not np.all(np.isfinite(wienerLower(m.copy(), f.copy()))): bad.append('direct call: Wiener lower of a single undefined phase is not finite')

therm = GeneralThermodynamics(FECRNI_DB, ['FE', 'CR', 'NI'], ['FCC_A1', 'BCC_A2', 'SIGMA'])
x, T = [0.45, 0.05], 973
d = computeMobility(therm, x, T)
print('stable phases', d.phases[0], 'mobility', d.mobility[0])
for name, r in (('WL', H.WIENER_LOWER), ('HL', H.HASHIN_LOWER), ('HU', H.HASHIN_UPPER), ('WU', H.WIENER_UPPER), ('LAB', H.LABYRINTH)):
    v = np.atleast_1d(computeHomogenizationFunction(therm, x, T, H(r))[0])
    print(name, v)
    if not np.all(np.isfinite(v)): bad.append(f'{name}: non-finite homogenized mobility in the single-phase SIGMA region')
if bad:
    print('FAIL'); [print('  -', b) for b in bad]; sys.exit(1)
print('PASS'); sys.exit(0)
