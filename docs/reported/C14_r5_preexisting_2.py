'''
Pre-existing (unmodified tree): the 'dislocations' site type (the default of every precipitate)
never reaches its own branch of PrecipitateModel._calcNucleationSites. DislocationDescription is a
subclass of BulkDescription and the chain starts with isinstance(description, BulkDescription), so
dislocation nucleation uses bulkN0 minus the number density of precipitates:
  * the number of available sites does not depend on the dislocation density at all,
  * sites are counted as used per particle, not per length of dislocation line covered by the
    particles (precipitates of ten times the radius occupy the same number of sites),
  * precipitates on dislocations and bulk precipitates deplete one common pool.
C14 ("... for every site type", "The number of available nucleation sites decreases as precipitates
occupy sites"): the count still decreases and stays non-negative, so no sentence is contradicted
literally; what is wrong is which quantity is counted for this site type. No thermodynamics needed.
'''
import sys, warnings
import numpy as np
warnings.simplefilter('ignore')
from kawin.precipitation import PrecipitateModel, VolumeParameter

def model(site, dislocationDensity):
    m = PrecipitateModel(phases=['beta'], elements=['B'])
    m.setPBMParameters(cMin=1e-10, cMax=1e-8, bins=75, minBins=50, maxBins=100)
    m.setInitialComposition(4e-3)
    m.setInterfacialEnergy(0.1)
    m.setVolumeAlpha(1e-5, VolumeParameter.MOLAR_VOLUME, 4)
    m.setVolumeBeta(1e-5, VolumeParameter.MOLAR_VOLUME, 4)
    m.setNucleationDensity(grainSize=1, dislocationDensity=dislocationDensity)
    m.setNucleationSite(site)
    return m

ok = True
free = []
for rho in [1e12, 1e15]:
    m = model('dislocations', rho)
    x = [np.zeros(m.PBM[0].bins)]
    sites = m._calcNucleationSites(0, x, 0)
    ns = m.matrixParameters.nucleationSites
    print(f'dislocation density {rho:.0e}: available sites {sites:.4e}   dislocationN0 {ns.dislocationN0:.4e}   bulkN0 {ns.bulkN0:.4e}')
    free.append(sites)
    if not np.isclose(sites, ns.dislocationN0, rtol=1e-6):
        print('  DEFECT: empty matrix, but the available sites are not the dislocation sites')
        ok = False
if free[0] == free[1]:
    print('  DEFECT: the number of available dislocation sites does not depend on the dislocation density')
    ok = False

# same number of particles, ten times the radius: more dislocation line is covered
m = model('dislocations', 1e15)
r = m.PBM[0].PSDsize
small, big = np.zeros(len(r)), np.zeros(len(r))
small[5] = 1e20
big[np.argmin(np.abs(r - 10*r[5]))] = 1e20
sSmall, sBig = m._calcNucleationSites(0, [small], 0), m._calcNucleationSites(0, [big], 0)
print(f'1e20 particles/m3 of radius {r[5]:.2e}: {sSmall:.6e} sites left; of radius {r[np.argmax(big)]:.2e}: {sBig:.6e} sites left')
if sSmall == sBig:
    print('  DEFECT: sites used on dislocations do not depend on the length of line the particles cover')
    ok = False
print('PASS' if ok else 'FAIL')
sys.exit(0 if ok else 1)
