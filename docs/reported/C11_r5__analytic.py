"""Analytic stand-in for BinaryThermodynamics used by the preexisting_2/3 reproducers (no CALPHAD needed)."""
import numpy as np
R = 8.314
class AnalyticBinaryThermodynamics:
    numElements = 2
    def __init__(self, params):
        self.p = params
        self.phases = ['ALPHA'] + list(params)
    def clearCache(self):
        pass
    def _xeq(self, T, ph):
        return self.p[ph]['A']*np.exp(-self.p[ph]['Q']/(R*np.asarray(T, dtype=float)))
    def getDrivingForce(self, x, T, precPhase=None, removeCache=False, **kwargs):
        x = np.atleast_1d(np.squeeze(x)).astype(float)
        T = np.atleast_1d(T).astype(float)
        xb = self.p[precPhase]['xb']
        dg = R*T*xb*np.log(x/self._xeq(T, precPhase))
        return np.squeeze(dg), np.squeeze(xb*np.ones(dg.shape))
    def getInterfacialComposition(self, T, gExtra=0, precPhase=None):
        g = np.atleast_1d(gExtra).astype(float)
        T = np.atleast_1d(T).astype(float)
        if len(T) == 1:
            T = T*np.ones(g.shape)
        xb = self.p[precPhase]['xb']
        xa = self._xeq(T, precPhase)*np.exp(g/(R*T*xb))
        xbArr = xb*np.ones(xa.shape)
        unstable = xa > 0.5*xb
        xa[unstable], xbArr[unstable] = -1, -1
        return np.squeeze(xa), np.squeeze(xbArr)
    def getInterdiffusivity(self, x, T, removeCache=True, phase=None):
        return np.squeeze(1e-4*np.exp(-200e3/(R*np.atleast_1d(T).astype(float))))
    def getTracerDiffusivity(self, x, T, removeCache=True, phase=None):
        d = 1e-4*np.exp(-200e3/(R*np.atleast_1d(T).astype(float)))
        return np.squeeze(np.stack([0.5*d, d], axis=1))

def compareRuns(a, b, names1, names2, tol=1e-9):
    '''Compares time grid and per-phase histories of model a (entries names1) and model b (entries names2)'''
    perm = [names2.index(n) for n in names1]
    problems = []
    if a.pData.n != b.pData.n:
        problems.append('number of steps differs: %d vs %d' % (a.pData.n, b.pData.n))
    n = min(a.pData.n, b.pData.n) + 1
    relT = np.max(np.abs(a.pData.time[:n] - b.pData.time[:n])/np.maximum(np.abs(a.pData.time[:n]), 1e-300))
    if relT > tol:
        problems.append('time grid differs (max rel. difference %.3e)' % relT)
    for name in ['volFrac', 'Ravg', 'precipitateDensity', 'nucRate', 'Rcrit', 'drivingForce']:
        A = getattr(a.pData, name)[:n]
        B = getattr(b.pData, name)[:n][:, perm]
        scale = np.max(np.abs(A))
        err = np.max(np.abs(A - B))/scale if scale > 0 else np.max(np.abs(B))
        if err > tol:
            problems.append('%s history differs between the two orders (max difference / max value = %.3e)' % (name, err))
    return problems
