"""
Pre-existing violation of C09 on the unmodified tree.

Sentence violated: "... does not depend on ... whether cached equilibria are kept or
discarded ...; repeating a call gives the same answer".

GeneralThermodynamics._getCompositionSetsEq solves the matrix+precipitate equilibrium
  - without a cached composition set: through getEq(), i.e. with GE = gExtra + gOffset (= 1 J/mol)
  - with a cached composition set:    through _update_composition_sets(), whose conditions come
    from self._getConditions(x, T), i.e. with GE = 0 (the gOffset is dropped).
So the second (cache-served) call of curvatureFactor / the 'approximate' and 'curvature'
driving force is computed for a precipitate that is 1 J/mol more stable than in the first call.
Ni-8Cr-10Al at 1073.15 K: c_eq changes by 1e-4 (relative), the approximate driving force by 0.3 %.
"""
import sys, warnings
warnings.filterwarnings('ignore')
import numpy as np
from kawin.thermo import MulticomponentThermodynamics
from kawin.tests.datasets import NICRAL_TDB

x, T = [0.08, 0.1], 1073.15
ok = True

th = MulticomponentThermodynamics(NICRAL_TDB, ['NI', 'CR', 'AL'], ['FCC_A1', 'FCC_L12'])
first = th.curvatureFactor(x, T, removeCache=False)
second = th.curvatureFactor(x, T, removeCache=False)     # identical query, served from the cached composition sets
print('curvatureFactor c_eq_alpha 1st call:', first.c_eq_alpha)
print('curvatureFactor c_eq_alpha 2nd call:', second.c_eq_alpha)
rel = np.max(np.abs(first.c_eq_alpha - second.c_eq_alpha) / np.abs(first.c_eq_alpha))
print('  relative difference: %.3e' % rel)
if rel > 1e-7:
    ok = False

for method in ['approximate', 'curvature']:
    th = MulticomponentThermodynamics(NICRAL_TDB, ['NI', 'CR', 'AL'], ['FCC_A1', 'FCC_L12'], drivingForceMethod=method)
    dg1, _ = th.getDrivingForce(x, T)          # default removeCache=False
    dg2, _ = th.getDrivingForce(x, T)
    th.clearCache()
    dg3, _ = th.getDrivingForce(x, T)          # cache discarded -> first value again
    print(f'{method}: dG 1st = {float(dg1):.6f}, repeated = {float(dg2):.6f}, after clearCache = {float(dg3):.6f}')
    if abs(dg1 - dg2) > 1e-6 * abs(dg1):
        ok = False

if ok:
    print('PASS')
    sys.exit(0)
print('FAIL: the repeated (cache-served) query differs from the first / cache-free query')
sys.exit(1)
