'''
Pre-existing defect 1 (unmodified tree): a binary non-isothermal run uses the interfacial-composition
table of the PREVIOUS step for the mass balance (and, with setBetaBinary(2), the previous step's
equilibrium compositions for the impingement rate) of the step at which the table refresh is due.
PrecipitateBase._calculateDependentTerms runs  mass balance -> nucleation rate -> growth rate, and
the refresh (|dTemp| > maxTempChange) only happens inside the growth rate.  Cooling has no
temperature step limit (Constraints.computeDTfromTemperature only looks at Tchange > 0), so on a
quench the table that is used can be many kelvin away from the current temperature.

Violates the second sentence of C13 ("... the tabulated interfacial and equilibrium compositions in
use at any step were computed at a temperature within the configured maximum temperature change of
the current temperature, for heating and cooling, fast or arbitrarily slow").

Black-box check with an analytical thermodynamics object whose precipitate composition depends on
temperature: the mean precipitate composition recorded by the mass balance (fconc/volFrac) tells at
which temperature the table used for that step was computed.

exit 0 / PASS: every recorded step used compositions tabulated within maxTempChange of its temperature
exit 1 / FAIL: otherwise
'''
import sys, io, contextlib
import numpy as np
from kawin.precipitation import PrecipitateModel, VolumeParameter
from kawin.precipitation.NucleationRate import betaBinary2
from kawin.solver.Solver import SolverType

R = 8.314
class Therm:
    '''Dilute ideal binary: solvus exp(-Q/RT), precipitate composition xB(T) linear in T'''
    numElements = 2
    Q, D0, QD = 60000., 1e-4, 150000.
    def clearCache(self): pass
    def xB(self, T): return 0.25 + 2e-4*(np.asarray(T, dtype=float) - 700)
    def TofxB(self, xb): return 700 + (xb - 0.25)/2e-4
    def xEq(self, T, g=0.): return np.exp((-self.Q + np.asarray(g)/self.xB(T)) / (R*T))
    def getInterfacialComposition(self, T, gExtra=0, precPhase=None):
        T = np.atleast_1d(np.asarray(T, dtype=float)); g = np.atleast_1d(np.asarray(gExtra, dtype=float))
        xa = self.xEq(T, g); xb = self.xB(T)*np.ones(xa.shape)
        bad = xa >= xb
        return np.squeeze(np.where(bad, -1., xa)), np.squeeze(np.where(bad, -1., xb))
    def getDrivingForce(self, x, T, precPhase=None, removeCache=False, training=False):
        x = np.atleast_1d(np.squeeze(x)).astype(float); T = np.atleast_1d(T).astype(float)
        dg = self.xB(T)*R*T*np.log(x/self.xEq(T))
        return np.squeeze(dg), np.squeeze(self.xB(T)*np.ones(dg.shape))
    def getInterdiffusivity(self, x, T, removeCache=False, phase=None):
        return np.squeeze(self.D0*np.exp(-self.QD/(R*np.atleast_1d(T).astype(float))))
    def getTracerDiffusivity(self, x, T, removeCache=False, phase=None):
        d = self.D0*np.exp(-self.QD/(R*np.atleast_1d(T).astype(float)))
        return np.squeeze(np.stack([d, d], axis=-1))

th = Therm()
m = PrecipitateModel(phases=['BETA'], elements=['B'], thermodynamics=th)
with contextlib.redirect_stdout(io.StringIO()):
    m.setTemperature([0, 0.01, 0.02], [750., 750., 600.])      #hold, then cool at 15000 K/h
m.setBetaBinary(2)
m.setPBMParameters(cMin=1e-10, cMax=1e-8, bins=75, minBins=50, maxBins=100)
m.setInitialComposition(0.01)
m.setInterfacialEnergy(0.1)
m.setVolumeAlpha(1e-5, VolumeParameter.MOLAR_VOLUME, 4)
m.setVolumeBeta(1e-5, VolumeParameter.MOLAR_VOLUME, 4)
m.setNucleationDensity(grainSize=1, dislocationDensity=1e15)
m.solve(0.02*3600, solverType=SolverType.EXPLICITEULER)

p = m.pData
maxT = m.constraints.maxTempChange
tol = 1e-6
worstMass, worstBeta = (0, 0), (0, 0)
for n in range(1, p.n+1):
    T = p.temperature[n]
    # temperature the precipitate compositions used by the mass balance were tabulated at
    if p.volFrac[n,0] > 1e-8:
        Ttab = th.TofxB(p.fconc[n,0,0] / p.volFrac[n,0])
        if abs(Ttab - T) > worstMass[0]: worstMass = (abs(Ttab - T), n)
    # impingement rate: recompute it with equilibrium compositions tabulated at T' in [T-maxT, T+maxT]
    if p.drivingForce[n,0] > 0 and p.impingement[n,0] > 0 and p.nucRate[n,0] > 0:
        vals = []
        for Tp in (T - maxT, T + maxT):
            xa, xb = th.getInterfacialComposition(Tp, 0)
            vals.append(float(betaBinary2(th, p.composition[n,0], T, p.Rcrit[n,0], m.matrixParameters, m.precipitateParameters[0], xa, xb)))
        lo, hi = min(vals), max(vals)
        b = p.impingement[n,0]
        out = max(lo/b - 1, b/hi - 1, 0)      #relative distance outside the admissible interval
        if out > worstBeta[0]: worstBeta = (out, n)

print('steps %d, largest temperature change in one step %.2f K' % (p.n, np.max(np.abs(np.diff(p.temperature)))))
print('mass balance: compositions tabulated up to %.3f K from the step temperature (step %d, T = %.2f K); maxTempChange = %g K' % (worstMass[0], worstMass[1], p.temperature[worstMass[1]], maxT))
print('impingement (setBetaBinary(2)): recorded value up to %.1f %% outside the range allowed by maxTempChange (step %d)' % (100*worstBeta[0], worstBeta[1]))
ok = worstMass[0] <= maxT*(1+tol) + 1e-6 and worstBeta[0] <= 1e-9
print('PASS' if ok else 'FAIL')
sys.exit(0 if ok else 1)
