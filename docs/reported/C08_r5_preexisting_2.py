"""Pre-existing (unmodified tree): loading a saved precipitation model (GenericModel.load ->
PrecipitateModel.fromDict) replaces every configured PopulationBalanceModel by a fresh one
built from the *current* grid with default settings. The initial grid, minBins/maxBins and
the adaptive flag configured with setPBMParameters on the loading model are silently lost.

Violated sentences of C08 (operation: load):
  - "reset restores the initial grid": after load, reset() restores the grid that was
    current when the model was saved, not the initial grid.
  - "automatic adjustment with adaptive binning never leaves more classes than the
    configured maximum": after load the configured maximum (here 100) is replaced by the
    default 200, and the adjustment leaves 125 classes.
No thermodynamics needed. Exit code 1 = defect present.
"""
import sys
import warnings
warnings.filterwarnings('ignore')
import numpy as np
from kawin.precipitation import PrecipitateModel, MatrixParameters, PrecipitateParameters, TemperatureParameters

matrix = MatrixParameters(['ZR'])
matrix.initComposition = [4e-3]
matrix.volume.setVolume(1e-5, 'VM', 4)
prec = PrecipitateParameters('AL3ZR')
prec.gamma = 0.1
prec.volume.setVolume(1e-5, 'VM', 4)
temperature = TemperatureParameters(723.15)

cMin, cMax, bins, minBins, maxBins = 1e-10, 2e-9, 80, 40, 100
def makeModel():
    m = PrecipitateModel(matrixParameters=matrix, precipitateParameters=[prec], temperatureParameters=temperature)
    m.setPBMParameters(cMin=cMin, cMax=cMax, bins=bins, minBins=minBins, maxBins=maxBins, adaptive=True)
    return m

failures = []

model = makeModel()
pbm = model.PBM[0]
pbm.PSD[-1] = 10.           #last class populated -> grid gets extended (80 -> 100 classes)
pbm.adjustSizeClassesEuler()
assert pbm.bins == 100 and pbm.bins <= pbm.maxBins
saved = model.toDict()      #this is what model.save writes

new_model = makeModel()     #same PBM configuration as the saved model
new_model.fromDict(saved)   #this is what model.load does
pbm2 = new_model.PBM[0]
print('configured: %d classes on [%g, %g], minBins %d, maxBins %d' % (bins, cMin, cMax, minBins, maxBins))
print('after load: minBins %d, maxBins %d, originalBins %d, originalMax %g' % (pbm2.minBins, pbm2.maxBins, pbm2.originalBins, pbm2.originalMax))

#automatic adjustment after load
pbm2.PSD[-1] = 10.
pbm2.adjustSizeClassesEuler()
print('after load + automatic adjustment: %d classes (configured maximum %d)' % (pbm2.bins, maxBins))
if pbm2.bins > maxBins:
    failures.append('adaptive adjustment left %d classes > configured maximum %d' % (pbm2.bins, maxBins))

#reset after load
pbm2.reset()
initial = np.linspace(cMin, cMax, bins + 1)
print('after load + reset: %d classes on [%g, %g]' % (pbm2.bins, pbm2.PSDbounds[0], pbm2.PSDbounds[-1]))
if pbm2.bins != bins or not np.allclose(pbm2.PSDbounds, initial, rtol=1e-12, atol=0):
    failures.append('reset restored %d classes on [%g, %g] instead of the initial grid' % (pbm2.bins, pbm2.PSDbounds[0], pbm2.PSDbounds[-1]))

if failures:
    print('DEFECT PRESENT: ' + '; '.join(failures))
    sys.exit(1)
print('no defect')
sys.exit(0)
