'''
Pre-existing (unmodified tree): PrecipitateModel.save/load does not carry the recorded size distributions, and load() throws away
the population balance configuration (recording switch, recorded history, minBins/maxBins, adaptive flag) of the model it loads into.

fromDict replaces every self.PBM[p] by PopulationBalanceModel(min, max, bins) with default settings, so
 - with PSD recording on, the recorded size distribution history of the saved model is not in the file and the loaded model has none
   (and its recording is silently switched off), even if the history had been put there with PBM.loadRecordedPSD before load();
 - maxBins/minBins/adaptive of the freshly constructed model of the same configuration revert to 200/100/True.

Sentence of C20: "... reproduces every recorded history, the current state and the size distributions exactly, whatever the recording options ..."
'''
import sys, os, tempfile
sys.path.insert(0, os.path.dirname(os.path.abspath(__file__)))
import numpy as np
from _alzr import makeModel

m = makeModel(recordPSD=True)
m.solve(600)
d = tempfile.mkdtemp()
m.save(os.path.join(d, 'model'))
m.saveRecordedPSD(os.path.join(d, 'psd'))          #writes psd_AL3ZR.npz

m2 = makeModel(recordPSD=True)
m2.PBM[0].loadRecordedPSD(os.path.join(d, 'psd_AL3ZR'))
assert np.array_equal(m2.PBM[0]._recordedPSD, m.PBM[0]._recordedPSD)
m2.load(os.path.join(d, 'model'))

bad = []
p, p2 = m.PBM[0], m2.PBM[0]
if p2._recordedPSD is None or not np.array_equal(p._recordedPSD, p2._recordedPSD):
    bad.append('recorded size distributions: original %s, loaded %s' % (p._recordedPSD.shape, None if p2._recordedPSD is None else p2._recordedPSD.shape))
if p._record != p2._record:
    bad.append('recording switch: original %s, loaded %s' % (p._record, p2._record))
if (p.minBins, p.maxBins) != (p2.minBins, p2.maxBins):
    bad.append('minBins/maxBins: original %s, loaded %s' % ((p.minBins, p.maxBins), (p2.minBins, p2.maxBins)))
if bad:
    print('\n'.join(bad))
    print('FAIL')
    sys.exit(1)
print('PASS')
