"""
Pre-existing violation of C09 on the unmodified tree (default 'tangent' driving force, default removeCache=False).

Sentence violated: "The value returned ... by the driving-force ... queries does not depend on which queries
were made before, on whether cached equilibria are kept or discarded" (sequence with a temperature jump).

Ni-Cr-Al (test database), matrix FCC_A1 / precipitate FCC_L12:
    query A: x = (Cr 0.0845, Al 0.1075), T = 1273.15 K   (undersaturated, dG = -249 J/mol)
    query B: x = (Cr 0.2342, Al 0.0844), T =  973.15 K
Query B alone gives dG = +1066.4 J/mol with precipitate (0.0625, 0.2021).
Query B right after query A on the same object gives dG = -36.3 J/mol with 'precipitate' (0.2204, 0.0943):
_getDrivingForceTangent restarts the parallel-tangent solve from the composition set cached by query A
(self._compset_cache_df) and converges to a second, nearly disordered stationary point close to the matrix
composition; the guard np.allclose(xb, mat_comps, 1e-6) that is meant to catch that collapse is far too tight.
"""
import sys, warnings
warnings.filterwarnings('ignore')
import numpy as np
from kawin.thermo import MulticomponentThermodynamics
from kawin.tests.datasets import NICRAL_TDB

A = ([0.0845, 0.1075], 1273.15)
B = ([0.2342, 0.0844], 973.15)

fresh = MulticomponentThermodynamics(NICRAL_TDB, ['NI', 'CR', 'AL'], ['FCC_A1', 'FCC_L12'], drivingForceMethod='tangent')
dg_alone, xp_alone = fresh.getDrivingForce(*B)

th = MulticomponentThermodynamics(NICRAL_TDB, ['NI', 'CR', 'AL'], ['FCC_A1', 'FCC_L12'], drivingForceMethod='tangent')
th.getDrivingForce(*A)
dg_after, xp_after = th.getDrivingForce(*B)
dg_arr, _ = MulticomponentThermodynamics(NICRAL_TDB, ['NI', 'CR', 'AL'], ['FCC_A1', 'FCC_L12']).getDrivingForce([A[0], B[0]], [A[1], B[1]])

print('B alone           : dG = %.4f, xP = %s' % (float(dg_alone), xp_alone))
print('B after A         : dG = %.4f, xP = %s' % (float(dg_after), xp_after))
print('B inside array[A,B]: dG = %.4f' % float(dg_arr[1]))
if np.isclose(dg_alone, dg_after, rtol=1e-6) and np.isclose(dg_alone, dg_arr[1], rtol=1e-6):
    print('PASS')
    sys.exit(0)
print('FAIL: the driving force at B depends on the query made before it')
sys.exit(1)
