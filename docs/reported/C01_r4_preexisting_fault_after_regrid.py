'''
UNMODIFIED tree: C01 is violated in a multicomponent run with the explicit Euler integrator when the two-phase
equilibrium evaluation that follows a re-gridding of the size classes does not converge (returns None with a
positive driving force).  PrecipitateModel._updateParticleSizeDistribution zeroes PSDXalpha/PSDXbeta for the new
grid and relies on the immediate _growthRate call to refill them; if that call falls back to "previous values",
PSDXbeta stays zero and the next recorded step has fconc = 0 with volFrac > 0 (the matrix composition jumps
above the alloy composition).  With RK4 the table is refilled in the next intermediate stage, so the record is fine.
Uses a stand-in for MulticomponentThermodynamics (no CALPHAD needed).  Prints the offending rows.
'''
import sys, warnings
import numpy as np
warnings.filterwarnings('ignore')
sys.path.insert(0, __file__.rsplit('/', 1)[0] + '/change1')
import importlib.util
src = open(__file__.rsplit('/', 1)[0] + '/change1/demo.py').read().split('ok = True\nfor solver')[0]
exec(src)

m = PrecipitateModel(phases=['beta'], elements=['B', 'C'])
m.setPBMParameters(cMin=1e-10, cMax=3e-9, bins=75, minBins=50, maxBins=100)     # adaptive grid
m.setInitialComposition([0.02, 0.01]); m.setTemperature(600.); m.setInterfacialEnergy(0.1)
m.setVolumeAlpha(1e-5, VolumeParameter.MOLAR_VOLUME, 4); m.setVolumeBeta(1e-5, VolumeParameter.MOLAR_VOLUME, 4)
m.setNucleationSite('bulk'); m.setNucleationDensity(bulkN0=1e28)
m.setThermodynamics(MockTernaryTherm()); m.setPSDrecording(True)
pbm = m.PBM[0]
orig = pbm.adjustSizeClassesEuler
events = []
def wrapped(check=False):
    change, idx = orig(check)
    if change and not events:
        m.therm.failCalls.add(m.therm.calls + 1)     # the evaluation right after the first re-gridding does not converge
        events.append(m.pData.n)
    return change, idx
pbm.adjustSizeClassesEuler = wrapped
m.solve(1.0, solverType=SolverType.EXPLICITEULER)
p = m.pData
res = p.composition[0][None,:] - ((1-p.volFrac.sum(axis=1))[:,None]*p.composition + 4*np.pi/3*np.sum(pbm._recordedPSD*(0.5*(pbm._recordedBins[:,1:]+pbm._recordedBins[:,:-1]))**3, axis=1)[:,None]*m.therm.xb[None,:])
k = int(np.argmax(np.abs(res).max(axis=1)))
print('re-gridding at step', events, ' max residual %.3e at step %d' % (np.abs(res).max(), k))
for j in (k-1, k, k+1):
    print('  step', j, 'composition', p.composition[j], 'volFrac', p.volFrac[j,0], 'fconc', p.fconc[j,0])
