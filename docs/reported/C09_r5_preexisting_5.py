"""
Pre-existing violation of C09 on the unmodified tree: getDrivingForce(..., local_phase_sampling_conditions=...)
(sampling method; also the first, sampling, step of the tangent method).

Sentence violated: "does not depend on which queries were made before, on whether cached equilibria are kept
or discarded".

_getPrecCompositionSetSamplingDF keeps the sampled points of the precipitate in self._points_cache together with
a REFERENCE to the caller's conditions dictionary and re-samples only if
`sample_data.conditions != local_phase_sampling_conditions`. When the caller changes a value in his own dictionary
and queries again (the natural way to scan a condition), the stored 'previous conditions' have changed with it,
the comparison finds no difference and the points sampled for the OLD condition are used; after that even a brand
new dictionary with the new value is regarded as unchanged.

Ni-Cr-Al, FCC_A1 -> BCC_A2 at x = (Cr 0.35, Al 0.05), 1073.15 K, precipitate sampled at X(BCC_A2,CR) = 0.8, then 0.6.
"""
import sys, warnings
warnings.filterwarnings('ignore')
import numpy as np
from pycalphad import variables as v
from kawin.thermo import MulticomponentThermodynamics
from kawin.tests.datasets import NICRAL_TDB

def make():
    th = MulticomponentThermodynamics(NICRAL_TDB, ['NI', 'CR', 'AL'], ['FCC_A1', 'BCC_A2'], drivingForceMethod='sampling')
    th.setDFSamplingDensity(200)
    return th

x, T = [0.35, 0.05], 1073.15
key = v.X('BCC_A2', 'CR')

dg_ref, xp_ref = make().getDrivingForce(x, T, local_phase_sampling_conditions={key: 0.6})

th = make()
cond = {key: 0.8}
dg_08, xp_08 = th.getDrivingForce(x, T, local_phase_sampling_conditions=cond)
cond[key] = 0.6
dg_06, xp_06 = th.getDrivingForce(x, T, local_phase_sampling_conditions=cond)
dg_06_new, xp_06_new = th.getDrivingForce(x, T, local_phase_sampling_conditions={key: 0.6})

print('X(BCC_A2,CR)=0.6 on a fresh object              : dG = %.4f, xP = %s' % (float(dg_ref), xp_ref))
print('X(BCC_A2,CR)=0.8                                : dG = %.4f, xP = %s' % (float(dg_08), xp_08))
print('same dict changed to 0.6, same object           : dG = %.4f, xP = %s' % (float(dg_06), xp_06))
print('new dict {..: 0.6}, same object                 : dG = %.4f, xP = %s' % (float(dg_06_new), xp_06_new))
if np.isclose(dg_ref, dg_06, rtol=1e-6) and np.isclose(dg_ref, dg_06_new, rtol=1e-6):
    print('PASS')
    sys.exit(0)
print('FAIL: the query for X=0.6 returns the result of the earlier query for X=0.8')
sys.exit(1)
