"""Pre-existing (unmodified tree), borderline input (2-D arrays): description.normalRadii(ar) associates the radii with the
wrong aspect ratio when `ar` is a 2-D array.  _normalRadii builds np.array([a, b, c]).T; for a 2-D ar of shape (n, m)
the full transpose yields shape (m, n, 3), i.e. entry [j, i] belongs to ar[i, j].  eqRadiusFactor / kineticFactor /
thermoFactor keep the (n, m) layout, so for the same argument the factors and the radii disagree (silently for square
arrays).  (SphereDescription returns shape (n, 3) for an (n, m) argument.)
Violates: "scalar and array calls agree" / "the three semi-axes ... have the requested aspect ratio".
"""
import sys, warnings
import numpy as np
warnings.simplefilter('ignore')
from kawin.precipitation.parameters.ShapeFactors import NeedleDescription

d = NeedleDescription()
ar = np.array([[1.5, 2.0], [4.0, 8.0]])
radii = d.normalRadii(ar)                     # shape (2, 2, 3)
got = radii[..., 2] / radii[..., 0]           # aspect ratio realised by the returned semi-axes
print('requested aspect ratios:\n', ar)
print('aspect ratios of the returned semi-axes:\n', got)
ok = True
for i in range(2):
    for j in range(2):
        single = d.normalRadii(ar[i, j])
        if not np.allclose(radii[i, j], single, rtol=1e-12):
            ok = False
if not ok:
    print('FAIL: normalRadii(2-D array)[i, j] is not normalRadii(ar[i, j]) (result is transposed)')
    sys.exit(1)
print('PASS')
sys.exit(0)
