'''
Pre-existing (unmodified tree), low severity: mixing "array and scalar arguments" in the nucleation
functions is not supported although the KWN model and computeSteadyStateNucleation suggest it:
zeldovich(T, Rcrit, ...) and nucleationRate(Z, beta, Gcrit, T, tau) index T with the mask built from
the Rcrit/Gcrit array, so one (isothermal) scalar temperature together with an array of driving
forces raises IndexError instead of being broadcast. ("at fixed temperature the steady-state rate
does not decrease with driving force" cannot be evaluated with a fixed scalar T.)
'''
import sys, warnings
import numpy as np
warnings.simplefilter('ignore')
from kawin.precipitation import PrecipitateParameters
import kawin.precipitation.NucleationRate as nr
prec = PrecipitateParameters('beta'); prec.gamma = 0.2; prec.volume.setVolume(1e-5, 'VM', 4)
R, G = nr.nucleationBarrier(np.array([1e8, 5e8, 4e9]), prec)
ok = True
try:
    Z = nr.zeldovich(800., R, prec)
    rate = nr.nucleationRate(Z, 1e3*np.ones(3), G, 800., np.ones(3))
    print(Z, rate)
except Exception as e:
    print('scalar T with array Rcrit/Gcrit:', type(e).__name__, e)
    ok = False
print('PASS' if ok else 'FAIL')
sys.exit(0 if ok else 1)
