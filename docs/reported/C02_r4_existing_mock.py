import numpy as np
from kawin.precipitation import PrecipitateModel, VolumeParameter
from kawin.solver import SolverType

R = 8.314
class MockBinaryTherm:
    """Dilute ideal binary: x_alpha(R) = xeq*exp(gExtra/(xb*R*T)), line compound xb."""
    def __init__(self, xeq, xb=0.25, D=1e-18, nucleate=False):
        self.numElements = 2
        self.xeq = dict(xeq) if isinstance(xeq, dict) else xeq
        self.xb = xb
        self.D = D
        self.nucleate = nucleate
    def _xeq(self, precPhase):
        return self.xeq[precPhase] if isinstance(self.xeq, dict) else self.xeq
    def getDrivingForce(self, x, T, precPhase=None, removeCache=False, training=False):
        x = np.atleast_2d(x)[:,0]; T = np.atleast_1d(T)
        if not self.nucleate:
            return -1.0*np.ones(len(x)), self.xb*np.ones(len(x))
        dg = self.xb*R*T*np.log(x/self._xeq(precPhase))
        return dg, self.xb*np.ones(len(x))
    def getInterfacialComposition(self, T, gExtra=0, precPhase=None):
        T = np.atleast_1d(T); gExtra = np.atleast_1d(gExtra)
        xa = self._xeq(precPhase)*np.exp(gExtra/(self.xb*R*T[0]))
        xbeta = self.xb*np.ones(xa.shape)
        bad = xa >= self.xb
        xa = np.where(bad, -1, xa); xbeta = np.where(bad, -1, xbeta)
        return np.squeeze(xa), np.squeeze(xbeta)
    def getInterdiffusivity(self, x, T, removeCache=False):
        return self.D
    def getTracerDiffusivity(self, x, T, removeCache=False):
        x = np.atleast_1d(x)
        return np.squeeze(self.D*np.ones((len(x),2)))

def makeModel(phases=['BETA'], xeq=1e-3, x0=4e-3, D=1e-18, gamma=0.1, nucleate=False, pbm=None):
    m = PrecipitateModel(phases=phases, elements=['B'])
    if pbm is not None:
        m.setPBMParameters(**pbm)
    m.setInitialComposition(x0)
    m.setTemperature(700)
    for p in phases:
        m.setInterfacialEnergy(gamma if not isinstance(gamma, dict) else gamma[p], phase=p)
        m.setVolumeBeta(1e-5, VolumeParameter.MOLAR_VOLUME, 4, phase=p)
        m.setNucleationSite('bulk', phase=p)
    m.setVolumeAlpha(1e-5, VolumeParameter.MOLAR_VOLUME, 4)
    m.setNucleationDensity(bulkN0=1e25)
    m.setThermodynamics(MockBinaryTherm(xeq, D=D, nucleate=nucleate))
    return m
