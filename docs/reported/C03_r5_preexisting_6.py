'''
C03, pre-existing defect 6 (unmodified tree): one size class without result inside the binary lookup table gives NaN size distributions.

BinaryThermodynamics.getInterfacialComposition marks a size class for which no two-phase equilibrium was found with -1.
_createLookupBinary only handles a *leading* run of -1 (small unstable classes, via RdrivingForceIndex).  A -1 further up
(a calculation that did not converge for one Gibbs-Thomson value) stays in PSDXalpha/PSDXbeta, and _singleGrowthBinary
evaluates (x+1)/(-Vm_a/Vm_b+1) = (x+1)/0 -> infinite growth rate for that class boundary -> NaN in the PSD, in the
recorded PSD and in precipitateDensity, Ravg, ARavg, volFrac, fconc, nucRate.
(The fix for newly *added* classes, "continue from the last valid class", was not applied to the table build itself.)

Violates: "... transiently fails ... never records NaN, negative populations".  The backend fails for one class in the first table build only.
(The infinite growth rate also pins the time step to the minimum step: with the default minDtFrac=1e-8 the run needs 1e8 steps.)
'''
import sys, warnings, traceback
import numpy as np
warnings.filterwarnings('ignore')
np.seterr(all='ignore')

from kawin.precipitation import PrecipitateModel, VolumeParameter
from kawin.solver.Solver import SolverType

R_GAS = 8.314

class BinaryBackend:
    '''
    Analytic stand-in for BinaryThermodynamics (dilute ideal solution, line compound xb), same signatures and
    return conventions: getInterfacialComposition gives -1 for a size class without two-phase equilibrium.
    xmax plays the role of the guess composition: no two-phase equilibrium is found once the matrix side exceeds it
    '''
    def __init__(self, xb=0.25, D0=0.0768, Q=242000, xmax=None, fail=None):
        self.numElements = 2
        self.xb, self.D0, self.Q = xb, D0, Q
        self.xmax = 0.5*xb if xmax is None else xmax
        self.fail = fail            #fail(name, index of call) -> True to inject a backend failure
        self.calls = {}
    def _failNow(self, name):
        n = self.calls.get(name, 0); self.calls[name] = n + 1
        return self.fail is not None and self.fail(name, n)
    def xeq(self, T):
        return 4.3*np.exp(-60000/(R_GAS*T))
    def getDrivingForce(self, x, T, precPhase=None, removeCache=False):
        if self._failNow('drivingForce'):
            #GeneralThermodynamics.getDrivingForce: the method returns (None, None) when the equilibrium fails, which getDrivingForce squeezes
            return np.squeeze((None,)), np.squeeze((None,))
        x = np.atleast_2d(x); T = np.atleast_1d(T)
        xs = np.clip(x[:,0], 1e-300, 1-1e-12); xe = self.xeq(T)
        dg = R_GAS*T*(self.xb*np.log(xs/xe) + (1-self.xb)*np.log((1-xs)/(1-xe)))
        return np.squeeze(dg), np.squeeze(self.xb*np.ones(dg.shape))
    def getInterfacialComposition(self, T, gExtra=0, precPhase=None):
        T = np.atleast_1d(T); g = np.atleast_1d(gExtra).astype(float)
        if len(T) == 1: T = np.repeat(T, len(g))
        xa = self.xeq(T)*np.exp(g/(R_GAS*T*self.xb))
        unstable = xa >= self.xmax
        if len(g) > 3 and self._failNow('oneSizeClass'):
            unstable = unstable.copy(); unstable[len(g)//2] = True
        return np.squeeze(np.where(unstable, -1.0, xa)), np.squeeze(np.where(unstable, -1.0, self.xb))
    def getInterdiffusivity(self, x, T, removeCache=False):
        return np.squeeze(self.D0*np.exp(-self.Q/(R_GAS*np.atleast_1d(T))))
    def getTracerDiffusivity(self, x, T, removeCache=False):
        d = self.D0*np.exp(-self.Q/(R_GAS*np.atleast_1d(T)))
        return np.squeeze(np.stack([d, d], axis=1))

def binaryModel(therm, T=723.15, maxBins=100):
    m = PrecipitateModel(phases=['AL3ZR'], elements=['ZR'])
    m.setPBMParameters(cMin=1e-10, cMax=1e-8, bins=75, minBins=50, maxBins=maxBins)
    m.setInitialComposition(4e-3)
    if isinstance(T, tuple): m.setTemperature(*T)
    else: m.setTemperature(T)
    m.setInterfacialEnergy(0.1)
    a = 0.405e-9
    m.setVolumeAlpha(a**3, VolumeParameter.ATOMIC_VOLUME, 4)
    m.setVolumeBeta(a**3, VolumeParameter.ATOMIC_VOLUME, 4)
    m.setNucleationDensity(grainSize=1, dislocationDensity=1e15)
    m.setNucleationSite('dislocations')
    m.setThermodynamics(therm)
    return m

def wellFormed(m, tEnd):
    '''The clauses of C03 on the recorded histories'''
    errs = []
    d = m.pData
    n = len(d.time)
    if d.time[-1] != tEnd: errs.append('run ended at t = %r instead of %r' % (float(d.time[-1]), tEnd))
    if not np.all(np.diff(d.time) > 0): errs.append('time stamps not strictly increasing')
    for name in d.ATTRIBUTES:
        arr = getattr(d, name)
        if len(arr) != n: errs.append('%s has %d entries for %d time stamps' % (name, len(arr), n))
        bad = np.where(~np.isfinite(arr.reshape(len(arr), -1)).all(axis=1))[0]
        if len(bad) > 0: errs.append('%s is not finite at %d step(s), first at index %d: %s' % (name, len(bad), bad[0], arr[bad[0]]))
    for p in range(len(m.phases)):
        if np.any(m.PBM[p].PSD < 0) or not np.all(np.isfinite(m.PBM[p].PSD)): errs.append('PSD of phase %d negative / non-finite' % p)
    if np.any(d.volFrac < 0) or np.any(np.sum(d.volFrac, axis=1) > 1): errs.append('volume fraction outside [0,1]')
    if np.any(d.composition < 0) or np.any(d.composition > 1): errs.append('composition outside [0,1]')
    if np.any(d.Ravg < 0) or np.any(d.Rcrit < 0): errs.append('negative radius')
    return errs

def verdict(run, tEnd):
    try:
        m = run()
    except Exception as e:
        traceback.print_exc()
        print('FAIL: the run crashed with %s: %s' % (type(e).__name__, e))
        sys.exit(1)
    errs = wellFormed(m, tEnd)
    if errs:
        print('FAIL:'); [print('  ' + e) for e in errs]
        sys.exit(1)
    print('PASS'); sys.exit(0)

if __name__ == '__main__':
    T_END = 1e-3
    def run():
        m = binaryModel(BinaryBackend(fail=lambda name, n: name == 'oneSizeClass' and n == 0))
        #minDtFrac = 0.01: the infinite growth rate pins the step to the minimum step, so keep the run to at most 100 steps
        m.solve(T_END, solverType=SolverType.EXPLICITEULER, minDtFrac=1e-2)
        return m
    verdict(run, T_END)
