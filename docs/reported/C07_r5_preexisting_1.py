"""
Pre-existing defect (unmodified tree): PopulationBalanceModel.getDTEuler only looks at the growth rate on
the LEFT face of every filled class (growth[dissolutionIndex:-1][PSD[dissolutionIndex:] > 0]).  The growth
rate on the right face of the largest filled class - the rate at which that class is emptied by growth -
never enters the limit.  For a growth law that changes sign inside that class (the class that contains the
critical radius; G = K (R - R*) / R^2) the limit is therefore NOT maxBinRatio*dR / (fastest relevant growth
rate), and a class that is at/above the dissolution index and is advanced with exactly the model's own
step limit and the model's own corrected rate becomes negative.

Property sentences violated:
  "... so classes that obey the model's own step limit never become negative, and the limit itself equals
   the stated fraction of the class width divided by the fastest relevant growth rate."

exit 1 (FAIL) on the unmodified tree.
"""
import sys
import numpy as np
from kawin.precipitation import PopulationBalanceModel

pbm = PopulationBalanceModel(1e-10, 1e-8, 100, 50, 200)
b = pbm.PSDbounds
dR = b[1] - b[0]
i = 40                                   # single filled class
Rstar = b[i] + 0.1*dR                    # critical radius inside that class
growth = 1e-18 * (b - Rstar) / b**2      # physical 1/R law, negative below R*, positive above
psd = np.zeros(pbm.bins)
psd[i] = 1e20
pbm.PSD = psd.copy()

dissIndex = pbm.getDissolutionIndex(1e-3, 0)        # = i, the class is "relevant"
assert dissIndex <= i

dXdt0 = pbm.getdXdtEuler(growth, 0, 0, psd)
dt = pbm.getDTEuler(1e30, growth, dissIndex)         # the model's own step limit (ratio 0.4)
dXdt = pbm.correctdXdtEuler(dt, growth, 0, 0, psd)
new = psd + dXdt*dt

fastest = max(abs(growth[i]), abs(growth[i+1]))      # both faces of the only filled class let particles out
expected = 0.4*dR/fastest
print('step limit returned      : %.6e' % dt)
print('0.4*dR/fastest face rate : %.6e' % expected)
print('fraction leaving through left face  : %.3f' % (-min(growth[i],0)*dt/dR))
print('fraction leaving through right face : %.3f (uncorrected), corrected rate removes %.3f' % (max(growth[i+1],0)*dt/dR, pbm._netFlux[i+1]*dt/psd[i]))
print('class content after the step: %.6e (was %.6e)' % (new[i], psd[i]))

ok = True
if not np.isclose(dt, expected, rtol=1e-9):
    print('limit is not ratio*dR/(fastest relevant growth rate)')
    ok = False
if new.min() < -1e-6*psd[i]:
    print('class %d became negative although dt is exactly the model\'s own limit and the rate was corrected' % i)
    ok = False
print('PASS' if ok else 'FAIL')
sys.exit(0 if ok else 1)
