"""Pre-existing (unmodified tree): the cuboidal kinetic factor is NOT continuous at aspect ratio 1.

CuboidalDescription.__init__ sets kineticFactorMin = kineticFactor(1.0001), i.e. the value used for ar <= 1 is the
formula value at ar = 1.0001 (0.96799909...), whereas the formula used for every ar > 1 tends to
0.1 + 1.736/2 = 0.968 as ar -> 1+.  The factor therefore jumps by 9.1e-7 between ar = 1 and ar = 1 + 2.2e-16
(ten orders of magnitude above rounding; the other two cuboidal factors and all factors of the other shapes
are continuous to ~1e-15 there).
Violates: "Every factor of every shape (including cuboidal) is continuous at aspect ratio 1".
"""
import sys, warnings
import numpy as np
warnings.simplefilter('ignore')
from kawin.precipitation.parameters.ShapeFactors import CuboidalDescription

d = CuboidalDescription()
at1 = float(d.kineticFactor(1.0))
lim = 0.1 + 1.736 / 2          # analytic right-hand limit of the cuboidal formula at ar -> 1+
hs = [2.3e-16, 1e-14, 1e-12, 1e-10, 1e-8]
right = [float(d.kineticFactor(1.0 + h)) for h in hs]
print('kineticFactor(1)      =', repr(at1))
for h, v in zip(hs, right):
    print('kineticFactor(1+%.1e) = %r   jump = %.3e' % (h, v, v - at1))
print('analytic limit ar->1+ =', lim)
jump = abs(right[0] - at1)
# the right-hand values converge to 0.968 (differences ~1e-9 and shrinking), the value at 1 stays 9e-7 away
if jump > 1e-7 and abs(right[0] - lim) < 1e-8:
    print('FAIL: cuboidal kinetic factor is discontinuous at aspect ratio 1 (jump %.3e)' % jump)
    sys.exit(1)
print('PASS')
sys.exit(0)
