'''Shared helper for the preexisting_<n>.py reproducers: analytic ideal-dilute binary thermodynamics (no CALPHAD)'''
import warnings
warnings.filterwarnings('ignore')
import numpy as np
from kawin.precipitation import PrecipitateModel, VolumeParameter
from kawin.solver import SolverType

RGAS = 8.314

class IdealDiluteBinary:
    '''Stand-in for BinaryThermodynamics (only what PrecipitateModel calls).
    Tmax: above this temperature the precipitate phase does not exist (negative driving force, no two-phase equilibrium)'''
    numElements = 2
    def __init__(self, xe=1e-3, xb=0.25, D=1e-18, Tmax=None, nucleate=True):
        self.xe, self.xb, self.D, self.Tmax, self.nucleate = xe, xb, D, Tmax, nucleate
    def getDrivingForce(self, x, T, precPhase=None, removeCache=False, **kw):
        x = np.atleast_1d(np.squeeze(x)).astype(float)
        T = np.atleast_1d(T).astype(float)
        dg = RGAS*T*self.xb*np.log(x/self.xe)
        if not self.nucleate:
            dg = -np.abs(dg) - 1
        if self.Tmax is not None:
            dg = np.where(T > self.Tmax, -1000., dg)
        return dg, self.xb*np.ones_like(dg)
    def getInterfacialComposition(self, T, gExtra=0, precPhase=None, **kw):
        scalar = np.ndim(gExtra) == 0 and np.ndim(T) == 0
        g = np.atleast_1d(gExtra).astype(float)
        T = np.atleast_1d(T)*np.ones(g.shape)
        xa = self.xe*np.exp(g/(RGAS*T*self.xb))
        xb = self.xb*np.ones(g.shape)
        bad = xa >= self.xb
        if self.Tmax is not None:
            bad = bad | (T > self.Tmax)
        xa, xb = np.where(bad, -1, xa), np.where(bad, -1, xb)
        if scalar:
            return xa[0], xb[0]
        return xa, xb
    def getInterdiffusivity(self, x, T, removeCache=False, **kw):
        return self.D
    def getTracerDiffusivity(self, x, T, removeCache=False, **kw):
        return self.D*np.ones((len(np.atleast_1d(T)), 2))

def makeModel(T=700., therm=None, x0=7.4e-3):
    m = PrecipitateModel(phases=['BETA'], elements=['B'])
    m.setPBMParameters(cMin=1e-10, cMax=4e-9, bins=40, minBins=20, maxBins=60)
    m.setInitialComposition(x0)
    m.setTemperature(T)
    m.setVolumeAlpha(1e-5, VolumeParameter.MOLAR_VOLUME, 4)
    m.setVolumeBeta(1e-5, VolumeParameter.MOLAR_VOLUME, 4)
    m.setInterfacialEnergy(0.1)
    m.setNucleationSite('dislocations')
    m.setThermodynamics(therm if therm is not None else IdealDiluteBinary())
    return m
