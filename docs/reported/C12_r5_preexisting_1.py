'''
Pre-existing violation of C12 (unmodified tree):
  "in every precipitation state, binary or multicomponent, size classes larger than
   the critical radius grow and smaller ones shrink"

Multicomponent KWN model with an elastic strain energy on the precipitate.
The volumetric driving force used for the critical radius is  dG_chem/Vm - E_el
(NucleationRate.volumetricDrivingForce).  PrecipitateModel._singleGrowthMulti hands
(dG_chem/Vm - E_el)*Vm to getGrowthAndInterfacialComposition as "driving force" and
particleGibbs() = Vm*(E_el + 2*gamma/R) as Gibbs-Thomson energy, so the growth rate is
proportional to dG_chem - 2*Vm*E_el - 2*gamma*Vm/R : the elastic energy is subtracted twice
and growth changes sign at 2*gamma/(dG_chem/Vm - 2*E_el), not at the critical radius
2*gamma/(dG_chem/Vm - E_el).  (The binary branch counts it once and is consistent.)
'''
import sys, warnings
warnings.filterwarnings("ignore")
import numpy as np
from kawin.tests.datasets import NICRAL_TDB
from kawin.precipitation import PrecipitateModel, VolumeParameter
from kawin.thermo import MulticomponentThermodynamics

therm = MulticomponentThermodynamics(NICRAL_TDB, ['NI', 'AL', 'CR'], ['FCC_A1', 'FCC_L12'], drivingForceMethod='tangent')

def build(Eel):
    model = PrecipitateModel(elements=['Al', 'Cr'], phases=['FCC_L12'])
    model.setPBMParameters(cMin=1e-10, cMax=2e-8, bins=400, minBins=300, maxBins=500)
    model.setInitialComposition([0.098, 0.083])
    model.setInterfacialEnergy(0.023)
    model.setTemperature(1073)
    a = 0.352e-9
    model.setVolumeAlpha(a**3, VolumeParameter.ATOMIC_VOLUME, 4)
    model.setVolumeBeta(a**3, VolumeParameter.ATOMIC_VOLUME, 4)
    model.setNucleationSite('bulk')
    model.setNucleationDensity(bulkN0=1e30)
    if Eel is not None:
        model.precipitateParameters[0].strainEnergy.setConstantElasticEnergy(Eel)
    model.setThermodynamics(therm)
    model.setup()
    return model

ok = True
for Eel in [None, 1.5e7]:
    therm.clearCache()
    m = build(Eel)
    Rcrit = m.pData.Rcrit[0, 0]
    dGv = m.pData.drivingForce[0, 0]
    R = m.PBM[0].PSDbounds
    g = m.growth[0]
    # radius at which the growth rate of the size classes changes sign
    pos = np.where(g > 0)[0]
    R0 = np.interp(0, [g[pos[0]-1], g[pos[0]]], [R[pos[0]-1], R[pos[0]]])
    wrong = (R > Rcrit*1.02) & (g <= 0)
    print('E_el = %s J/m3: volumetric driving force %.4e J/m3, Rcrit %.4e m, growth changes sign at %.4e m, classes > 1.02*Rcrit that do not grow: %d'
          % (Eel, dGv, Rcrit, R0, wrong.sum()))
    if wrong.any() or abs(R0/Rcrit - 1) > 0.02:
        ok = False

if ok:
    print('PASS'); sys.exit(0)
print('FAIL: size classes larger than the critical radius shrink (elastic energy counted twice in multicomponent growth)')
sys.exit(1)
