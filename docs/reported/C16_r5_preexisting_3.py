'''
PRE-EXISTING (unmodified tree): EllipsoidalEnergyDescription.setIntegrationIntervals with its DEFAULT
assumeSymmetric=True integrates one octant and multiplies by 8. Components of D_ijkl / S_ijkl that are odd in
a direction cosine (S1112, S1211, S1323 ...) integrate to zero over the sphere but NOT over one octant, so the
"symmetric" shortcut returns an Eshelby tensor with large spurious shear-normal couplings (S1211 = 0.18 for a
sphere in an isotropic matrix, textbook 0). With equal stiffness and a diagonal eigenstrain these cancel out of
the energy, but as soon as the precipitate stiffness differs (strainEnergyBohm inverts (C_p - C_m) S + C_m) the energy
is wrong by ~50% and the 6x6 and fourth-rank routines disagree - for a plain isotropic sphere in an isotropic
matrix with a dilatational misfit, which has the closed form 18 K_p G_m /(3 K_p + 4 G_m) eps^2 V.

Violates: "the Eshelby tensor has its textbook components", "is the same whether computed with 6x6 or
fourth-rank tensors", non-dependence on the quadrature choice; all inputs are aligned and isotropic, i.e. exactly
the situation the docstring advertises the shortcut for.
'''
import sys
import numpy as np
from kawin.precipitation import StrainEnergy

Gm, num, Gp, nup, eps = 50e9, 0.3, 150e9, 0.2, 0.01
Kp = 2*Gp*(1+nup)/(3*(1-2*nup))
r = np.ones(3); V = 4*np.pi/3
closed = 18*Kp*Gm/(3*Kp+4*Gm)*eps**2*V
bad = False
for label, kw in [('default Lebedev', None), ('grid 80x80 assumeSymmetric=False', dict(assumeSymmetric=False)), ('grid 80x80 (default assumeSymmetric=True)', dict())]:
    se = StrainEnergy('ellipsoid'); se.setModuli(G=Gm, nu=num); se.setModuliPrecipitate(G=Gp, nu=nup); se.setEigenstrain(eps)
    if kw is not None:
        se.description.setIntegrationIntervals(80, 80, **kw)
    d = se.description
    S = d.Sijmn(d.Dijkl(r, se.params.cMatrix_4th))
    E4, E2 = se.compute(r), d.strainEnergyBohm2ndRank(r)
    print(f'{label:42s} compute() = {E4:.5e} ({E4/closed-1:+.2%} vs closed form)  6x6 = {E2:.5e} ({E2/closed-1:+.2%})  S1112 = {S[0,0,0,1]:+.4f}  S1211 = {S[0,1,0,0]:+.4f}')
    if kw == dict():
        bad |= abs(E4/closed-1) > 1e-3 or abs(E4/E2-1) > 1e-6 or abs(S[0,1,0,0]) > 1e-6
print('FAIL (defect present)' if bad else 'PASS')
sys.exit(1 if bad else 0)
