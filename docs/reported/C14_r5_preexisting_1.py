'''
Pre-existing (unmodified tree): geometric factors for admissible energy ratios close to the
site-type limit are dominated by cancellation error (grain corners: K -> 0, delta = arccos(0/0);
grain edges: pi/2 - alpha - k*beta; grain boundaries: 2 - 3k + k^3).

Sentences of C14 violated:
  "the geometric factors are non-negative over the admissible energy ratio k"
  "the volume factor decreases with k"
  "barrier, Zeldovich factor ... are finite and non-negative" (Z = sqrt(3*fv/4pi)... is NaN for fv < 0)

The ratios used are all accepted by NucleationBarrierParameters (k < maxRatio); the deviations are
1e-9 ... 1e-1 in absolute terms for factors whose true value is ~1e-7 or smaller, i.e. not
1e-15-level rounding: for grain corners the results are wrong by >1 % already at k = 0.99999*kmax.
'''
import sys, warnings
import numpy as np
warnings.simplefilter('ignore')
from kawin.precipitation import PrecipitateParameters
import kawin.precipitation.NucleationRate as nr

ok = True
gamma = 0.3
for site in ['grain boundaries', 'grain edges', 'grain corners']:
    prec = PrecipitateParameters('beta')
    prec.volume.setVolume(1e-5, 'VM', 4)
    prec.nucleation.setNucleationType(site)
    kmax = prec.nucleation.description.maxRatio
    prevV, prevK = None, None
    for e in range(2, 15):
        k = kmax*(1 - 10.0**(-e))
        prec.nucleation.gbEnergy = 2*gamma*k
        prec.gamma = gamma
        n = prec.nucleation
        assert n.GBk < kmax                      # admissible, accepted by _validateGBk
        A, V, a = float(n.areaFactor), float(n.volumeFactor), float(n.gbRemoval)
        R, G = nr.nucleationBarrier(1e8, prec)
        Z = float(nr.zeldovich(800., R, prec))
        msg = []
        if min(A, V, a) < -1e-12 or not np.all(np.isfinite([A, V, a])):
            msg.append('negative/NaN geometric factor')
        if prevV is not None and V > prevV*(1 + 1e-6) + 1e-12:
            msg.append(f'volume factor increases with k ({prevV:.3e} at 1-k/kmax=1e-{e-1} -> {V:.3e})')
        if not (np.isfinite(Z) and Z >= 0 and np.isfinite(G) and G >= 0):
            msg.append(f'Zeldovich factor/barrier not finite and non-negative (Z={Z}, Gcrit={float(G):.3e})')
        if msg:
            ok = False
            print(f'{site:17s} 1-k/kmax=1e-{e:<2d} area={A:+.3e} volume={V:+.3e} gbRemoval={a:+.3e}  VIOLATION: ' + '; '.join(msg))
        prevV, prevK = V, k
print('PASS' if ok else 'FAIL')
sys.exit(0 if ok else 1)
