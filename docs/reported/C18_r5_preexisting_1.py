'''
Pre-existing (unmodified tree): "the mean grain size never decreases without pinning" is violated.

No Zener drag at all (z = 0, stand-alone GrainGrowthModel). The grain size classes are re-meshed in
postProcess (PopulationBalanceModel.adjustSizeClassesEuler -> changeSizeClasses, which conserves the
third moment but not the number of grains). With a distribution loaded from data on a grid that is
wider than the data (cMax = 2e-5 for grains around 1e-6, the example notebook uses 0.5e-5), the
first step re-meshes 150 -> 200 classes (mean grain size jumps by +0.25 % within 1 s, the physical
growth in 1 s is 7e-6) and the second step re-meshes 200(+37) -> 100 classes, where the recorded mean
grain size DEcreases by about 1e-5 (relative) - larger than the physical growth of that step and
nine orders of magnitude above round-off.

exit 1 (and prints FAIL) if the recorded mean grain size decreases, exit 0 otherwise
'''
import sys, warnings
import numpy as np
warnings.filterwarnings('ignore')
from kawin.precipitation.coupling import GrainGrowthModel

np.random.seed(0)
g = GrainGrowthModel(cMin=1e-10, cMax=2e-5)
g.setGrainBoundaryMobility(1e-14)
g.LoadDistribution(np.random.lognormal(mean=np.log(1e-6), sigma=0.2, size=100000))
assert g._z == 0
bins = [g.pbm.bins]
for k in range(5):
    g.solve(1.0)
    bins.append(g.pbm.bins)

rel = np.diff(g.avgR) / g.avgR[:-1]
for i in range(len(rel)):
    print('t = {:5.2f} s   mean grain radius {:.9e} m   relative change {:+.3e}'.format(g.time[i+1], g.avgR[i+1], rel[i]))
print('number of size classes after each solve call:', bins)
print('total grain volume (third moment):', g.pbm.ThirdMoment())
if np.any(rel < -1e-9):
    print('FAIL: mean grain size decreased without pinning, largest relative decrease {:.3e}'.format(-rel.min()))
    sys.exit(1)
print('PASS')
sys.exit(0)
