'''Violations of C16 found in the UNMODIFIED tree (run with PYTHONPATH=<worktree>)'''
import warnings; warnings.simplefilter('ignore')
import numpy as np
from kawin.precipitation import StrainEnergy
from kawin.precipitation.parameters.LebedevNodes import loadPoints
from kawin.precipitation.parameters.ElasticFactors import moduliToC

print('--- (1) Lebedev rule is not exact even for degree 2 (and has duplicated nodes)')
for order in (53, 83, 131):
    phi, theta, w = loadPoints(order)
    pts = np.round(np.stack([np.sin(theta)*np.cos(phi), np.sin(theta)*np.sin(phi), np.cos(theta)], 1), 9)
    print(order, 'int z^2 dS / (4pi/3) =', 4*np.pi*np.sum(w*np.cos(theta)**2)/(4*np.pi/3),
          ' int x^2 y^2 dS /(4pi/15) =', 4*np.pi*np.sum(w*(pts[:,0]*pts[:,1])**2)/(4*np.pi/15),
          ' duplicate nodes:', len(w) - len(np.unique(pts, axis=0)))
G, nu, eps = 57.1e9, 0.33, 0.01
se = StrainEnergy('ellipsoid'); se.setModuli(G=G, nu=nu); se.setEigenstrain(eps)
d = se.description
S = d.Sijmn(d.Dijkl(np.array([1., 1., 1.]), se.params.cMatrix_4th))
print('sphere, isotropic: S1111', S[0,0,0,0], 'S3333', S[2,2,2,2], 'textbook', (7-5*nu)/(15*(1-nu)))
print('                   S1122', S[0,0,1,1], 'S1133', S[0,0,2,2], 'textbook', (5*nu-1)/(15*(1-nu)))
for v in ([eps, 0, 0], [0, 0, eps]):
    se.setEigenstrain(v); print('  uniaxial eigenstrain', v, '->', float(se.compute([1., 1., 1.])), '(must be equal by isotropy)')

print('--- (2) shear eigenstrain: 4th-rank Bohm (= compute) is 4x the homogeneous result, 6x6 variants are 1/2 of it')
se = StrainEnergy('ellipsoid'); se.setElasticConstants(168.4e9, 121.4e9, 75.4e9)   # precipitate == matrix
se.setEigenstrain([[0, 0.01, 0], [0.01, 0, 0], [0, 0, 0]])
r = np.array([1., 1., 2.]); d = se.description
print('homogeneous 4th', d.strainEnergyEllipsoid(r), ' homogeneous 6x6', d.strainEnergyEllipsoid2ndRank(r),
      ' compute/Bohm 4th', float(se.compute(r)), ' Bohm 6x6', d.strainEnergyBohm2ndRank(r))

print('--- (3) moduliToC(E, M): NaN at nu == 0 from rounding, wrong root for nu < 0')
print(moduliToC(E=114.2e9, M=114.2e9)[0, :2], ' expected', moduliToC(G=57.1e9, nu=0.0)[0, :2])
Gx, nux = 57.1e9, -0.2
print(moduliToC(E=2*Gx*(1+nux), M=2*Gx*(1-nux)/(1-2*nux))[0, :2], ' expected', moduliToC(G=Gx, nu=nux)[0, :2])

print('--- (4) precipitate stiffness supplied before matrix stiffness drops the ellipsoid shape')
a = StrainEnergy('ellipsoid'); a.setEigenstrain(eps); a.setModuli(G=G, nu=nu); a.setModuliPrecipitate(G=3*G, nu=nu)
b = StrainEnergy('ellipsoid'); b.setEigenstrain(eps); b.setModuliPrecipitate(G=3*G, nu=nu); b.setModuli(G=G, nu=nu)
print(type(a.description).__name__, float(a.compute(r)), ' vs ', type(b.description).__name__, float(b.compute(r)))
