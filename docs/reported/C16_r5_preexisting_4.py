'''
PRE-EXISTING (unmodified tree): StrainEnergy.update() executes
    self.params.appliedStress = rotateRank2Tensor(self.rotation, self.params.appliedStress)
i.e. it rotates the ALREADY STORED (possibly already rotated) applied stress again every time it runs. update()
runs on every stiffness / rotation setter, so the stress that strainEnergyEllipsoidWithStress sees - and the
energy - depend on how many setter calls were made and in which order, although the final configuration
(rotation, matrix stiffness, precipitate stiffness, eigenstrain, applied stress) is identical.

Violates: "the energy does not depend on ... the order in which rotation and stiffness were supplied"
(for the documented applied-stress option: setAppliedStress + strainEnergyEllipsoidWithStress).
'''
import sys
import numpy as np
from kawin.precipitation import StrainEnergy

t = 0.4
R = np.array([[np.cos(t), -np.sin(t), 0], [np.sin(t), np.cos(t), 0], [0, 0, 1]])
r = np.array([1.0, 1.0, 2.0])
def build(order):
    se = StrainEnergy('ellipsoid')
    se.setEigenstrain([0.01, 0.01, 0.02])
    se.setAppliedStress([[1e9, 0, 0], [0, 0, 0], [0, 0, 0]])
    for o in order:
        if o == 'rot':  se.setRotationMatrix(R)
        if o == 'mat':  se.setElasticConstants(168.4e9, 121.4e9, 75.4e9)
        if o == 'prec': se.setElasticConsantsPrecipitate(168.4e9, 121.4e9, 75.4e9)
    return se.description.strainEnergyEllipsoidWithStress(r), se.params.appliedStress
res = {}
for order in [('rot', 'mat', 'prec'), ('prec', 'rot', 'mat'), ('mat', 'rot', 'prec'), ('mat', 'prec', 'rot')]:
    E, s = build(order)
    res[order] = E
    print(f'setters in order {str(order):26s} energy with stress = {E:.8e}   stored stress xx,xy,yy /1e9 = {s[0,0]/1e9:+.4f} {s[0,1]/1e9:+.4f} {s[1,1]/1e9:+.4f}')
v = np.array(list(res.values()))
bad = np.ptp(v)/abs(v[0]) > 1e-9
print('FAIL (defect present): same final configuration, different energies' if bad else 'PASS')
sys.exit(1 if bad else 0)
