'''
UNMODIFIED tree: C05 violations found while reading (each run is capped at 20000 steps).
 1. t0 large relative to minDtFrac*dt_total: a model that proposes dt=0 is stepped with dtmin=1e-8*dt_total,
    which is below ulp(t0) -> currTime += dt is a no-op, accepted times are not strictly increasing, solve never ends.
 2. minDtFrac=0 and a zero proposal: dt=0 is accepted for ever (same symptom).
 3. dt proposal of type np.float32 with a python-float start time: the solver's clock becomes float32
    (NEP 50), the loop ends at float32(tf) != t0+dt_total.
 4. dt proposal that is a shape-(1,) array: the clock becomes an ndarray updated in place with +=, so
    every time handed to postProcess is the same object (a model that stores it sees all times equal).
'''
import numpy as np
from kawin.GenericModel import GenericModel
class M(GenericModel):
    def __init__(self, t0, dt): self.t=[t0]; self.X=[np.ones(2)]; self.dt=dt
    def getCurrentX(self): return self.t[-1], self.X
    def getdXdt(self,t,x): return [0*x[0]]
    def getDt(self,d): return self.dt
    def postProcess(self,t,x):
        self.t.append(t); self.X=x
        if len(self.t)>20000: raise RuntimeError('no progress after 20000 steps, t=%r'%(t,))
        return x, False
for name,m,T,kw in [('1 big t0',M(1e10,0.0),1.0,{}),('2 minDtFrac=0',M(0.0,0.0),1.0,{'minDtFrac':0}),
                    ('3 float32 dt',M(0.0,np.float32(0.07)),0.7,{}),('4 array dt',M(0.0,np.array([0.3])),1.0,{})]:
    try:
        m.solve(T,**kw); print(name,'-> final',repr(m.t[-1]),'== t0+T:',bool(np.all(np.float64(m.t[-1])==np.float64(m.t[0])+T)),'times',m.t[1:4])
    except Exception as e: print(name,'->',type(e).__name__,e)
