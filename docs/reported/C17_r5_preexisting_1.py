'''
Pre-existing (unmodified tree): the 'exclude' post-processing breaks the bounds/ordering clause in a
two-phase region in which BOTH phases have defined mobilities (Fe-Cr-Ni, FCC_A1 + BCC_A2, 1373.15 K).

_postProcessExcludePhases only sets the phase fraction of the excluded phase to 0 (the mobility row stays,
the remaining fractions no longer sum to 1).  Consequences with exclude=['FCC_A1']:
  * lower Wiener = 1/sum_kept(f/M) is LARGER than the largest phase mobility and larger than upper Wiener
  * the Hashin-Shtrikman rules still take the excluded phase as their reference (matrix) phase, upper HS returns
    the full BCC mobility although BCC only makes up 42 % -> upper HS > upper Wiener
In a single-phase region whose only phase is excluded the rules do not even agree on the meaning:
  upper Wiener / labyrinth -> 0, lower Wiener -> inf, both HS rules -> the full mobility of the excluded phase.
Violates: "the four bound rules return values between the smallest and largest phase mobility, ordered lower Wiener
<= lower HS <= upper HS <= upper Wiener" for the post-processing mode 'exclude', and "post-processing options ...
work in single-phase as well as multi-phase regions".
'''
import sys, warnings
import numpy as np
warnings.filterwarnings('ignore')
from kawin.thermo import GeneralThermodynamics
from kawin.tests.datasets import FECRNI_DB
from kawin.diffusion.DiffusionParameters import computeMobility
from kawin.diffusion.HomogenizationParameters import HomogenizationParameters as H, computeHomogenizationFunction

therm = GeneralThermodynamics(FECRNI_DB, ['FE', 'CR', 'NI'], ['FCC_A1', 'BCC_A2'])
bad = []

def rules(x, T, excluded):
    out = {}
    for name, r in (('WL', H.WIENER_LOWER), ('HL', H.HASHIN_LOWER), ('HU', H.HASHIN_UPPER), ('WU', H.WIENER_UPPER), ('LAB', H.LABYRINTH)):
        hp = H(r, postProcessFunction='exclude', postProcessArgs=excluded)
        out[name] = np.atleast_1d(computeHomogenizationFunction(therm, x, T, hp)[0])
    return out

# two-phase point
x, T = [0.3, 0.1], 1373.15
d = computeMobility(therm, x, T)
print('stable phases', d.phases[0], 'fractions', d.phase_fractions[0])
mmax = np.amax(d.mobility[0], axis=0)
for ex in (['FCC_A1'], ['BCC_A2']):
    r = rules(x, T, ex)
    print('exclude', ex, {k: v for k, v in r.items()}, 'largest phase mobility', mmax)
    tol = 1 + 1e-9
    if np.any(r['WL'] > tol*r['WU']): bad.append(f'exclude {ex}: lower Wiener > upper Wiener')
    if np.any(r['HU'] > tol*r['WU']): bad.append(f'exclude {ex}: upper HS > upper Wiener')
    if np.any(r['WL'] > tol*r['HL']): bad.append(f'exclude {ex}: lower Wiener > lower HS')
    if np.any(r['WL'] > tol*mmax): bad.append(f'exclude {ex}: lower Wiener > largest phase mobility')

# single-phase point (FCC only), FCC excluded
therm2 = GeneralThermodynamics(FECRNI_DB, ['FE', 'CR', 'NI'], ['FCC_A1', 'BCC_A2'])
x1 = [0.15, 0.3]
d1 = computeMobility(therm2, x1, T)
print('stable phases', d1.phases[0])
if len(d1.phases[0]) == 1:
    r = rules(x1, T, list(d1.phases[0]))
    print('only phase excluded', r)
    vals = np.array([r[k] for k in ('WL', 'HL', 'HU', 'WU')])
    if not np.all(np.isfinite(vals)): bad.append('only phase excluded: non-finite result')
    if not np.allclose(vals, vals[0], rtol=1e-9, atol=0): bad.append('only phase excluded: the four rules disagree (0 / inf / full mobility)')

if bad:
    print('FAIL'); [print('  -', b) for b in bad]; sys.exit(1)
print('PASS'); sys.exit(0)
