'''
Pre-existing C02 violation 2 (UNMODIFIED tree): a PrecipitateModel that was solved for some time and is
then handed to a Coupler (GenericModel.Coupler documents this: "We have the option to solve a model for
a given amount of time before coupling it to another model, which would make each model have a different
internal time").  Coupler.getCurrentX/postProcess pass the Coupler's own clock (starting at 0) to
model.postProcess, so the time recorded in model.pData jumps BACK from 120 s to 1.27 s: the recorded step
is negative while the number density rises by 8e12 /m3 in that step (the nucleation that is applied is
nucRate[n] * dt > 0).  Second sentence of C02: the number density changes by more than
(nucleation rate) * (recorded step); the recorded step is not even positive.
Exits 1 (prints FAIL) when the violation is present.
'''
import sys, os
sys.path.insert(0, os.path.dirname(os.path.abspath(__file__)))
from preexisting_common import *
from kawin.GenericModel import Coupler

m = makeModel()
m.solve(120, solverType=SolverType.EXPLICITEULER)
n0 = m.pData.n
Coupler([m]).solve(50, solverType=SolverType.EXPLICITEULER)

t, N, J = m.pData.time, m.pData.precipitateDensity[:,0], m.pData.nucRate[:,0]
bad = []
for n in range(n0+1, m.pData.n+1):
    dt = t[n] - t[n-1]
    if N[n] - N[n-1] > max(J[n-1], J[n])*dt*(1 + 1e-6) + 60 + 1e-12*N[n]:
        bad.append(n)
for n in bad[:3]:
    print('step %d: time %.6g -> %.6g (step %.4g s), number density %.6e -> %.6e (rise %.3e), nucleation rate %.3e -> %.3e /m3/s'
          % (n, t[n-1], t[n], t[n]-t[n-1], N[n-1], N[n], N[n]-N[n-1], J[n-1], J[n]))
if bad:
    print('FAIL')
    sys.exit(1)
print('PASS')
