'''
Pre-existing (unmodified tree): "When attached to a precipitation model the strength history has exactly
one entry per host step and the grain-growth clock equals the host clock after every host step" only
holds if the coupled models are attached before the first host step. Attached to a host that has already
been solved for a while (e.g. a first heat-treatment stage without the coupled models, or a host restored
with host.load()), StrengthModel.updateCoupledModel starts its history with ONE initial entry and
GrainGrowthModel starts its clock at 0, so the history is shorter than host.pData.time (plotStrength
fails with a shape mismatch) and the grain clock lags the host clock by the time of attachment for the
rest of the run.

The host is a thermodynamics-free subclass of PrecipitateBase (real solve loop / postProcess).
exit 1 (and prints FAIL) if history / clock are misaligned, exit 0 otherwise
'''
import sys, warnings
import numpy as np
warnings.filterwarnings('ignore')
from kawin.precipitation.KWNBase import PrecipitateBase
from kawin.precipitation.PopulationBalance import PopulationBalanceModel
from kawin.precipitation.coupling import StrengthModel, GrainGrowthModel


class SyntheticHost(PrecipitateBase):
    def __init__(self):
        super().__init__(phases=['beta'], elements=['X'])
        self.PBM = [PopulationBalanceModel(1e-10, 1e-8, 60)]
        r = self.PBM[0].PSDsize
        self.PBM[0].PSD = 1e20 * np.exp(-0.5 * ((r - 3e-9) / 0.5e-9)**2)
        self.growth = [np.zeros(self.PBM[0].bins + 1)]
        self.setTemperature(500)
    def setup(self):
        if self._isSetup:
            return
        self.pData.composition[0] = 0.01
        self.pData.temperature[0] = 500
        self._isSetup = True
    def getCurrentX(self):
        return self.pData.time[self.pData.n], [self.PBM[0].PSD]
    def getDt(self, dXdt):
        return 0.1
    def _processX(self, x):
        pass
    def _calcMassBalance(self, t, x, Y):
        Y.precipitateDensity[0, 0] = np.sum(x[0])
        Y.Ravg[0, 0] = 3e-9 * (1 + t)**(1/3)
        Y.volFrac[0, 0] = min(1e-3 * t, 0.02)
        Y.composition[0, 0] = 0.01 - 0.25 * Y.volFrac[0, 0]
        return Y
    def _calcNucleationRate(self, t, x, Y):
        return Y
    def _growthRate(self, Y):
        return self.growth, Y
    def _getdXdt(self, t, x, Y, growth):
        return [np.zeros(len(x[0]))]
    def _correctdXdt(self, dt, x, dXdt, Y, growth):
        pass
    def _updateParticleSizeDistribution(self, t, x):
        self.PBM[0].PSD = x[0]


sm = StrengthModel()
sm.setDislocationParameters(25.4e9, 0.286e-9, 0.34)
sm.setCoherencyParameters(0.008)
sm.setSolidSolutionStrength({'X': 1e9}, 1)
gg = GrainGrowthModel(1e-7, 5e-6)
gg.LoadDistributionFunction(lambda R: np.exp(-0.5 * ((R - 1e-6) / 2e-7)**2))

host = SyntheticHost()
host.solve(1.0)                 #first stage without coupled models
host.addCouplingModel(sm)
host.addCouplingModel(gg)
host.solve(0.5)                 #second stage with coupled models
nHost = len(host.pData.time)
print('host entries {:3d}, strength entries {:3d}, host clock {:.2f}, grain clock {:.2f}'.format(nHost, len(sm.rss), host.pData.time[-1], gg.time[-1]))
bad = []
if not (len(sm.rss) == len(sm.ls) == len(sm.solidStrength) == nHost):
    bad.append('strength history has {} entries for {} host entries'.format(len(sm.rss), nHost))
if abs(gg.time[-1] - host.pData.time[-1]) > 1e-9:
    bad.append('grain growth clock {:.2f} != host clock {:.2f}'.format(gg.time[-1], host.pData.time[-1]))
if bad:
    print('FAIL: ' + '; '.join(bad))
    sys.exit(1)
print('PASS')
sys.exit(0)
