'''
Pre-existing violation of C12 (unmodified tree), state carried between calls:
  "the critical radius used for nucleation is the radius at which growth changes sign: in every
   precipitation state, binary or multicomponent, ..."

Binary model, two solve() calls on the same object with the interfacial energy changed in between
(a calibration loop that continues a run, or a two-stage treatment).  The radius -> interfacial
composition table of the binary model (PrecipitateModel._createLookupBinary) is built from
particleGibbs(R) = Vm*(2*gamma/R + ...) at setup() and is only rebuilt when the temperature drifts or
the size classes are re-meshed.  setInterfacialEnergy (likewise setVolumeBeta / setPrecipitateShape /
setStrainEnergy) after setup() does not invalidate it, while the critical radius is computed from the
new value at every step.  After the change nuclei are created at Rcrit = 0.37 nm whereas the size classes
keep shrinking up to 0.74 nm.  (The multicomponent branch recomputes the Gibbs-Thomson energies at every
step and follows the change; setGrainBoundaryEnergy was already made to act after setup.)
'''
import sys, warnings
import numpy as np
warnings.filterwarnings('ignore')
from kawin.tests.datasets import ALZR_TDB
from kawin.thermo import BinaryThermodynamics
from kawin.precipitation import PrecipitateModel, VolumeParameter
from kawin.solver import SolverType

th = BinaryThermodynamics(ALZR_TDB, ['AL', 'ZR'], ['FCC_A1', 'AL3ZR'], drivingForceMethod='tangent')
th.setDiffusivity(lambda T: 0.0768*np.exp(-242000/(8.314*T)), 'FCC_A1')
m = PrecipitateModel(phases=['AL3ZR'], elements=['ZR'])
m.setPBMParameters(cMin=1e-10, cMax=4e-9, bins=800, minBins=600, maxBins=1000)
m.setInitialComposition(6e-4)
m.setTemperature(723.15)
m.setInterfacialEnergy(0.1)
a = 0.405e-9
m.setVolumeAlpha(a**3, VolumeParameter.ATOMIC_VOLUME, 4)
m.setVolumeBeta(a**3, VolumeParameter.ATOMIC_VOLUME, 4)
m.setNucleationDensity(grainSize=1, dislocationDensity=1e15)
m.setNucleationSite('dislocations')
m.setThermodynamics(th)

def check(tag):
    R = m.PBM[0].PSDbounds; g = m.growth[0]
    pos = np.where(g > 0)[0]
    R0 = np.interp(0, [g[pos[0]-1], g[pos[0]]], [R[pos[0]-1], R[pos[0]]])
    Rcrit = m.pData.Rcrit[-1, 0]
    bad = ((R > 1.02*Rcrit) & (g <= 0)).sum()
    print('%s: Rcrit %.4e m, growth changes sign at %.4e m, classes above 1.02*Rcrit that shrink: %d' % (tag, Rcrit, R0, bad))
    return bad == 0 and abs(R0/Rcrit - 1) < 0.02

ok = True
m.solve(1e-2, solverType=SolverType.EXPLICITEULER)
ok &= check('gamma = 0.10, first solve ')
m.setInterfacialEnergy(0.05)
m.solve(1e-2, solverType=SolverType.EXPLICITEULER)
ok &= check('gamma = 0.05, second solve')
if ok:
    print('PASS'); sys.exit(0)
print('FAIL: the binary lookup table still holds the Gibbs-Thomson energies of the previous interfacial energy'); sys.exit(1)
