'''
Pre-existing side observation (not a C10 clause; found while building thermodynamics objects for C10 checks):
GeneralThermodynamics.__init__ keeps the caller's `phases` list (self.phases = phases) and _forceDisorder
overwrites phases[0] with 'DIS_<matrix>' in it.  Re-using the same list for a second object built from the same
TDB text/file (a new Database, which has no DIS_ phase) raises KeyError('DIS_FCC_A1'); the elements list is
copied and is not affected.

Exit 1 (FAIL) on the unmodified tree.
'''
import sys, warnings
warnings.filterwarnings('ignore')
from kawin.thermo import MulticomponentThermodynamics
from kawin.tests.datasets import NICRAL_TDB

elements = ['NI', 'CR', 'AL']
phases = ['FCC_A1', 'FCC_L12']
first = MulticomponentThermodynamics(NICRAL_TDB, elements, phases)
print('caller list after the first construction:', phases)
ok = phases == ['FCC_A1', 'FCC_L12']
try:
    second = MulticomponentThermodynamics(NICRAL_TDB, elements, phases)
    d1 = first.getInterdiffusivity([0.08, 0.1], 1073.15)
    d2 = second.getInterdiffusivity([0.08, 0.1], 1073.15)
    print('second object:', second.phases, abs(d1 - d2).max())
except Exception as e:
    print('second construction with the same list raises', repr(e))
    ok = False
print('PASS' if ok else 'FAIL')
sys.exit(0 if ok else 1)
