'''
C03, pre-existing defect 2 (unmodified tree): binary run, default RK4 iterator, adaptive grid, heated above the solvus -> NaN histories.

Sequence: (1) the adaptive grid grows beyond maxBins and is re-meshed to minBins classes (fewer than the original
number of classes); (2) the temperature rises above the solvus: the backend finds no two-phase equilibrium for any
size class (-1), _createLookupBinary sets RdrivingForceIndex to the last class of the *current* (small) table; (3) the
driving force is negative and xEqAlpha is 0, so _updateParticleSizeDistribution resets the PBM to its original (larger)
number of classes and installs a zero table - but leaves RdrivingForceIndex at the old value; (4) _singleGrowthBinary's
guard "RdrivingForceIndex+1 < len(table)" now passes and evaluates the super-saturation on the zero table: x/0 -> inf
growth rates, inf*0 -> NaN fluxes.  With the explicit Euler iterator the growth rate of the step is overwritten
before use, with RK4 (the default of solve()) the stages use it and NaN reaches precipitateDensity, Ravg, ARavg,
volFrac and fconc.

Violates: "all recorded histories ... finite" for "temperatures ... outside the two-phase region", adaptive PBM grid, RK4 iterator
(no fault injection involved).
'''
import sys, warnings, traceback
import numpy as np
warnings.filterwarnings('ignore')
np.seterr(all='ignore')

from kawin.precipitation import PrecipitateModel, VolumeParameter
from kawin.solver.Solver import SolverType

R_GAS = 8.314

class BinaryBackend:
    '''
    Analytic stand-in for BinaryThermodynamics (dilute ideal solution, line compound xb), same signatures and
    return conventions: getInterfacialComposition gives -1 for a size class without two-phase equilibrium.
    xmax plays the role of the guess composition: no two-phase equilibrium is found once the matrix side exceeds it
    '''
    def __init__(self, xb=0.25, D0=0.0768, Q=242000, xmax=None, fail=None):
        self.numElements = 2
        self.xb, self.D0, self.Q = xb, D0, Q
        self.xmax = 0.5*xb if xmax is None else xmax
        self.fail = fail            #fail(name, index of call) -> True to inject a backend failure
        self.calls = {}
    def _failNow(self, name):
        n = self.calls.get(name, 0); self.calls[name] = n + 1
        return self.fail is not None and self.fail(name, n)
    def xeq(self, T):
        return 4.3*np.exp(-60000/(R_GAS*T))
    def getDrivingForce(self, x, T, precPhase=None, removeCache=False):
        if self._failNow('drivingForce'):
            #GeneralThermodynamics.getDrivingForce: the method returns (None, None) when the equilibrium fails, which getDrivingForce squeezes
            return np.squeeze((None,)), np.squeeze((None,))
        x = np.atleast_2d(x); T = np.atleast_1d(T)
        xs = np.clip(x[:,0], 1e-300, 1-1e-12); xe = self.xeq(T)
        dg = R_GAS*T*(self.xb*np.log(xs/xe) + (1-self.xb)*np.log((1-xs)/(1-xe)))
        return np.squeeze(dg), np.squeeze(self.xb*np.ones(dg.shape))
    def getInterfacialComposition(self, T, gExtra=0, precPhase=None):
        T = np.atleast_1d(T); g = np.atleast_1d(gExtra).astype(float)
        if len(T) == 1: T = np.repeat(T, len(g))
        xa = self.xeq(T)*np.exp(g/(R_GAS*T*self.xb))
        unstable = xa >= self.xmax
        if len(g) > 3 and self._failNow('oneSizeClass'):
            unstable = unstable.copy(); unstable[len(g)//2] = True
        return np.squeeze(np.where(unstable, -1.0, xa)), np.squeeze(np.where(unstable, -1.0, self.xb))
    def getInterdiffusivity(self, x, T, removeCache=False):
        return np.squeeze(self.D0*np.exp(-self.Q/(R_GAS*np.atleast_1d(T))))
    def getTracerDiffusivity(self, x, T, removeCache=False):
        d = self.D0*np.exp(-self.Q/(R_GAS*np.atleast_1d(T)))
        return np.squeeze(np.stack([d, d], axis=1))

def binaryModel(therm, T=723.15, maxBins=100):
    m = PrecipitateModel(phases=['AL3ZR'], elements=['ZR'])
    m.setPBMParameters(cMin=1e-10, cMax=1e-8, bins=75, minBins=50, maxBins=maxBins)
    m.setInitialComposition(4e-3)
    if isinstance(T, tuple): m.setTemperature(*T)
    else: m.setTemperature(T)
    m.setInterfacialEnergy(0.1)
    a = 0.405e-9
    m.setVolumeAlpha(a**3, VolumeParameter.ATOMIC_VOLUME, 4)
    m.setVolumeBeta(a**3, VolumeParameter.ATOMIC_VOLUME, 4)
    m.setNucleationDensity(grainSize=1, dislocationDensity=1e15)
    m.setNucleationSite('dislocations')
    m.setThermodynamics(therm)
    return m

def wellFormed(m, tEnd):
    '''The clauses of C03 on the recorded histories'''
    errs = []
    d = m.pData
    n = len(d.time)
    if d.time[-1] != tEnd: errs.append('run ended at t = %r instead of %r' % (float(d.time[-1]), tEnd))
    if not np.all(np.diff(d.time) > 0): errs.append('time stamps not strictly increasing')
    for name in d.ATTRIBUTES:
        arr = getattr(d, name)
        if len(arr) != n: errs.append('%s has %d entries for %d time stamps' % (name, len(arr), n))
        bad = np.where(~np.isfinite(arr.reshape(len(arr), -1)).all(axis=1))[0]
        if len(bad) > 0: errs.append('%s is not finite at %d step(s), first at index %d: %s' % (name, len(bad), bad[0], arr[bad[0]]))
    for p in range(len(m.phases)):
        if np.any(m.PBM[p].PSD < 0) or not np.all(np.isfinite(m.PBM[p].PSD)): errs.append('PSD of phase %d negative / non-finite' % p)
    if np.any(d.volFrac < 0) or np.any(np.sum(d.volFrac, axis=1) > 1): errs.append('volume fraction outside [0,1]')
    if np.any(d.composition < 0) or np.any(d.composition > 1): errs.append('composition outside [0,1]')
    if np.any(d.Ravg < 0) or np.any(d.Rcrit < 0): errs.append('negative radius')
    return errs

def verdict(run, tEnd):
    try:
        m = run()
    except Exception as e:
        traceback.print_exc()
        print('FAIL: the run crashed with %s: %s' % (type(e).__name__, e))
        sys.exit(1)
    errs = wellFormed(m, tEnd)
    if errs:
        print('FAIL:'); [print('  ' + e) for e in errs]
        sys.exit(1)
    print('PASS'); sys.exit(0)

if __name__ == '__main__':
    T_END = 10.5*3600
    def run():
        #10 h at 450 C, then up to 1100 K within 36 s; xmax: above ~1000 K no two-phase equilibrium is found (all classes -1)
        m = binaryModel(BinaryBackend(xmax=5e-3), T=([0, 10, 10.01, 21], [723.15, 723.15, 1100, 1100]), maxBins=90)
        log = []
        class Watch:
            def updateCoupledModel(self, model):
                s = (int(model.PBM[0].bins), int(model.RdrivingForceIndex[0]))
                if not log or log[-1][1:] != s: log.append((float(model.pData.time[-1]),) + s)
        m.addCouplingModel(Watch())
        m.solve(T_END)          #default iterator (RK4)
        print('(time, size classes, RdrivingForceIndex):', log)
        return m
    verdict(run, T_END)
