'''
C03, pre-existing defect 1 (unmodified tree): NaN is recorded when the multicomponent backend returns no impingement factor.

MulticomponentThermodynamics.impingementFactor returns None when no two-phase equilibrium is found and there is no
earlier result to fall back on (first query, after clearCache(), or always with removeCache=True).
kawin.precipitation.NucleationRate.betaMulti stores that None into a float array, where it becomes NaN;
PrecipitateBase._calcNucleationRate only tests "beta == 0" and goes on, so NaN is written into the impingement and
nucleation-rate histories (and into the first size class for one step).

Violates: "If the thermodynamic backend transiently fails to return an equilibrium (returns no result) ... never records NaN".
Here the backend fails exactly once (5th impingementFactor query), everything else is a plain isothermal run.
'''
import sys, warnings, traceback
import numpy as np
warnings.filterwarnings('ignore')
np.seterr(all='ignore')

from kawin.precipitation import PrecipitateModel, VolumeParameter
from kawin.solver.Solver import SolverType
from kawin.thermo.MultiTherm import CurvatureOutput, _growthRateOutputFromCurvature

R_GAS = 8.314

class TernaryBackend:
    '''
    Analytic stand-in for MulticomponentThermodynamics (planar phase boundary, fixed precipitate composition), same
    signatures and return conventions: getGrowthAndInterfacialComposition / impingementFactor return None when no
    equilibrium is found (impingementFactor: None when there is no earlier result to fall back on or removeCache=True)
    '''
    def __init__(self, D=1e-17, fail=None):
        self.numElements = 3
        self.cb, self.ce0, self.D = np.array([0.23, 0.03]), np.array([0.06, 0.08]), D
        self.fail = fail            #fail(name, index of call) -> True to inject a backend failure
        self.calls = {}
    def _failNow(self, name):
        n = self.calls.get(name, 0); self.calls[name] = n + 1
        return self.fail is not None and self.fail(name, n)
    def _tie(self, x, T):
        n = self.cb - self.ce0
        f = np.dot(n, x - self.ce0) / np.dot(n, self.cb - self.ce0)
        ca = (x - f*self.cb) / (1 - f)
        G2 = R_GAS*T/0.05
        dcbar = self.cb - ca
        return ca, G2, dcbar, G2*np.dot(dcbar, x - ca)
    def getDrivingForce(self, x, T, precPhase=None, removeCache=False):
        if self._failNow('drivingForce'):
            return np.squeeze((None,)), np.squeeze((None,))
        x = np.atleast_2d(x); T = np.atleast_1d(T)
        return np.squeeze([self._tie(xi, Ti)[3] for xi, Ti in zip(x, T)]), np.squeeze([self.cb for xi in x])
    def _curv(self, x, T):
        x = np.squeeze(np.array(x, dtype=float))
        ca, G2, dcbar, dG = self._tie(x, T)
        mc = self.D / (G2*np.dot(dcbar, dcbar))
        dc = dcbar / (G2*np.dot(dcbar, dcbar))
        beta = 1/np.sum(dcbar**2 / (np.clip(ca, 1e-12, 1)*self.D))
        return CurvatureOutput(dc=dc, mc=mc, gba=0.1*np.eye(len(x)), beta=beta, c_eq_alpha=ca, c_eq_beta=self.cb)
    def getGrowthAndInterfacialComposition(self, x, T, dG, R, gExtra, precPhase=None, removeCache=False, searchDir=None):
        if self._failNow('growth'): return None
        return _growthRateOutputFromCurvature(np.squeeze(np.array(x, dtype=float)), dG, R, gExtra, self._curv(x, T))
    def impingementFactor(self, x, T, precPhase=None, removeCache=False, searchDir=None):
        if self._failNow('impingement'): return None
        return self._curv(x, T).beta

def ternaryModel(therm):
    m = PrecipitateModel(phases=['P1'], elements=['AL', 'CR'])
    m.setPBMParameters(cMin=1e-10, cMax=1e-8, bins=75, minBins=50, maxBins=100)
    m.setInitialComposition([0.098, 0.083])
    m.setTemperature(1073)
    m.setInterfacialEnergy(0.023)
    a = 0.352e-9
    m.setVolumeAlpha(a**3, VolumeParameter.ATOMIC_VOLUME, 4)
    m.setVolumeBeta(a**3, VolumeParameter.ATOMIC_VOLUME, 4)
    m.setNucleationSite('bulk')
    m.setNucleationDensity(bulkN0=1e30)
    m.setThermodynamics(therm)
    return m

def wellFormed(m, tEnd):
    '''The clauses of C03 on the recorded histories'''
    errs = []
    d = m.pData
    n = len(d.time)
    if d.time[-1] != tEnd: errs.append('run ended at t = %r instead of %r' % (float(d.time[-1]), tEnd))
    if not np.all(np.diff(d.time) > 0): errs.append('time stamps not strictly increasing')
    for name in d.ATTRIBUTES:
        arr = getattr(d, name)
        if len(arr) != n: errs.append('%s has %d entries for %d time stamps' % (name, len(arr), n))
        bad = np.where(~np.isfinite(arr.reshape(len(arr), -1)).all(axis=1))[0]
        if len(bad) > 0: errs.append('%s is not finite at %d step(s), first at index %d: %s' % (name, len(bad), bad[0], arr[bad[0]]))
    for p in range(len(m.phases)):
        if np.any(m.PBM[p].PSD < 0) or not np.all(np.isfinite(m.PBM[p].PSD)): errs.append('PSD of phase %d negative / non-finite' % p)
    if np.any(d.volFrac < 0) or np.any(np.sum(d.volFrac, axis=1) > 1): errs.append('volume fraction outside [0,1]')
    if np.any(d.composition < 0) or np.any(d.composition > 1): errs.append('composition outside [0,1]')
    if np.any(d.Ravg < 0) or np.any(d.Rcrit < 0): errs.append('negative radius')
    return errs

def verdict(run, tEnd):
    try:
        m = run()
    except Exception as e:
        traceback.print_exc()
        print('FAIL: the run crashed with %s: %s' % (type(e).__name__, e))
        sys.exit(1)
    errs = wellFormed(m, tEnd)
    if errs:
        print('FAIL:'); [print('  ' + e) for e in errs]
        sys.exit(1)
    print('PASS'); sys.exit(0)

if __name__ == '__main__':
    T_END = 1.0
    def run():
        m = ternaryModel(TernaryBackend(fail=lambda name, n: name == 'impingement' and n == 4))
        m.solve(T_END, solverType=SolverType.EXPLICITEULER)
        return m
    verdict(run, T_END)
