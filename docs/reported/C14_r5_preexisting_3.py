'''
Pre-existing (unmodified tree), lower severity: with the parameter-object API the grain-boundary
energy lives in MatrixParameters.GBenergy and reaches the precipitates' barrier factors only inside
PrecipitateBase.setup(), which returns early once the model has been set up. A change of
matrixParameters.GBenergy after the first setup()/solve() (without reset()) is silently ignored by
the cached factors, the critical radius/barrier and the occupied grain-boundary sites.
(model.setGrainBoundaryEnergy() was repaired for exactly this situation; the attribute path was not.)

C14 sentence: "cached factors follow every change of interfacial energy, grain-boundary energy or site type".
'''
import sys, warnings
import numpy as np
warnings.simplefilter('ignore')
from kawin.tests.datasets import ALZR_TDB
from kawin.precipitation import PrecipitateModel, MatrixParameters, PrecipitateParameters, TemperatureParameters
from kawin.thermo import BinaryThermodynamics

therm = BinaryThermodynamics(ALZR_TDB, ['AL', 'ZR'], ['FCC_A1', 'AL3ZR'], drivingForceMethod='tangent')
therm.setDiffusivity(lambda T: 0.0768*np.exp(-242000/(8.314*T)), 'FCC_A1')

matrix = MatrixParameters(['ZR'])
matrix.volume.setVolume(1e-5, 'VM', 4)
matrix.GBenergy = 0.15
matrix.initComposition = 4e-3
prec = PrecipitateParameters('AL3ZR')
prec.gamma = 0.1
prec.volume.setVolume(1e-5, 'VM', 4)
prec.nucleation.setNucleationType('grain boundaries')
m = PrecipitateModel(thermodynamics=therm, matrixParameters=matrix, precipitateParameters=[prec],
                     temperatureParameters=TemperatureParameters(723.15))
m.setup()
n = prec.nucleation
print(f'after setup:  matrix.GBenergy={matrix.GBenergy}  nucleation.gbEnergy={n.gbEnergy}  k={float(n.GBk):.3f}  volumeFactor={float(n.volumeFactor):.5f}')

matrix.GBenergy = 0.05
m.setup()       # what solve() does first
expected = float(n.description.volumeFactor(matrix.GBenergy/(2*prec.gamma)))
print(f'after change: matrix.GBenergy={matrix.GBenergy}  nucleation.gbEnergy={n.gbEnergy}  k={float(n.GBk):.3f}  volumeFactor={float(n.volumeFactor):.5f}  (expected {expected:.5f})')
ok = np.isclose(float(n.volumeFactor), expected, rtol=1e-9)
if not ok:
    print('  VIOLATION: the cached factors did not follow the change of the grain-boundary energy')
print('PASS' if ok else 'FAIL')
sys.exit(0 if ok else 1)
