'''Helper shared by the preexisting_*.py reproducers: the binary Al-Zr precipitation model of kawin/tests/test_precipitation.py'''
import warnings
warnings.filterwarnings('ignore')
import numpy as np
from kawin.tests.datasets import ALZR_TDB
from kawin.precipitation import PrecipitateModel, VolumeParameter
from kawin.thermo import BinaryThermodynamics

AlZrTherm = BinaryThermodynamics(ALZR_TDB, ['AL', 'ZR'], ['FCC_A1', 'AL3ZR'], drivingForceMethod='tangent')
AlZrTherm.setDFSamplingDensity(2000)
AlZrTherm.setEQSamplingDensity(500)
AlZrTherm.setDiffusivity(lambda T: 0.0768*np.exp(-242000/(8.314*T)), 'FCC_A1')

def makeModel(recordPSD=False):
    model = PrecipitateModel(phases=['AL3ZR'], elements=['ZR'])
    model.setPBMParameters(cMin=1e-10, cMax=1e-8, bins=75, minBins=50, maxBins=100)
    model.setInitialComposition(4e-3)
    model.setTemperature(450 + 273.15)
    model.setInterfacialEnergy(0.1)
    a = 0.405e-9
    model.setVolumeAlpha(a**3, VolumeParameter.ATOMIC_VOLUME, 4)
    model.setVolumeBeta(a**3, VolumeParameter.ATOMIC_VOLUME, 4)
    model.setNucleationDensity(grainSize=1, dislocationDensity=1e15)
    model.setNucleationSite('dislocations')
    model.setThermodynamics(AlZrTherm)
    if recordPSD:
        model.setPSDrecording(True)
    return model
