"""
Pre-existing violation of C09 on the unmodified tree: MulticomponentThermodynamics.curvatureFactor
(and therefore getGrowthAndInterfacialComposition / impingementFactor) with the default removeCache=False.

Sentence violated: "The value returned ... by the ... curvature/growth ... queries does not depend on which
queries were made before, on whether cached equilibria are kept or discarded".

Ni-Cr-Al, FCC_A1 / FCC_L12, two points that are both inside the two-phase field:
    query 1: x = (Cr 0.02, Al 0.17), T = 973.15 K
    query 2: x = (Cr 0.20, Al 0.10), T = 973.15 K   (then query 3: x = (0.08, 0.10), T = 1073.15 K)
Query 2 on a fresh object returns its own curvature terms. After query 1 the cached composition sets are
updated by a local equilibrium at the new point, lose a phase, the search for a two-phase equilibrium has
no search direction (searchDir=None is the default) and _process_invalid_eq hands back the result OF QUERY 1
(only a printed warning). The cache is not dropped on that path, so every later query - including ones that a
fresh object solves without any problem, at other temperatures - keeps returning the terms of query 1.
"""
import sys, warnings
warnings.filterwarnings('ignore')
import numpy as np
from kawin.thermo import MulticomponentThermodynamics
from kawin.tests.datasets import NICRAL_TDB

def make():
    return MulticomponentThermodynamics(NICRAL_TDB, ['NI', 'CR', 'AL'], ['FCC_A1', 'FCC_L12'])

q1 = ([0.02, 0.17], 973.15)
q2 = ([0.20, 0.10], 973.15)
q3 = ([0.08, 0.1], 1073.15)

alone2 = make().curvatureFactor(*q2)
alone3 = make().curvatureFactor(*q3)

th = make()
r1 = th.curvatureFactor(*q1)
r2 = th.curvatureFactor(*q2)
r3 = th.curvatureFactor(*q3)
g_alone = make().getGrowthAndInterfacialComposition(q2[0], q2[1], 500, 1e-9, 100)
th2 = make(); th2.curvatureFactor(*q1)
g_after = th2.getGrowthAndInterfacialComposition(q2[0], q2[1], 500, 1e-9, 100)

print('query 1           c_eq_alpha =', r1.c_eq_alpha, ' mc = %.4e' % r1.mc)
print('query 2 alone     c_eq_alpha =', alone2.c_eq_alpha, ' mc = %.4e' % alone2.mc)
print('query 2 after 1   c_eq_alpha =', r2.c_eq_alpha, ' mc = %.4e' % r2.mc)
print('query 3 alone     c_eq_alpha =', alone3.c_eq_alpha, ' mc = %.4e' % alone3.mc)
print('query 3 after 1,2 c_eq_alpha =', r3.c_eq_alpha, ' mc = %.4e' % r3.mc)
print('growth rate at query 2: alone %.4e, after query 1 %.4e' % (g_alone.growth_rate, g_after.growth_rate))
ok = np.allclose(r2.c_eq_alpha, alone2.c_eq_alpha, rtol=1e-2) and np.allclose(r3.c_eq_alpha, alone3.c_eq_alpha, rtol=1e-2) \
     and np.isclose(g_alone.growth_rate, g_after.growth_rate, rtol=1e-2)
if ok:
    print('PASS')
    sys.exit(0)
print('FAIL: curvature/growth terms of a query are those of an earlier, unrelated query')
sys.exit(1)
