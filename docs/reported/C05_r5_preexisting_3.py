'''
Unmodified tree: a model that has already been advanced on its own (to t = 5) is then coupled to a fresh model.
The Coupler starts its own clock at 0 (Coupler.time = [0]) and hands that clock to every sub-model, so the
pre-advanced model receives accepted times 0.1, 0.2, ... after 5.0: from its point of view time runs backwards
and solve(1.0) takes it from 5.0 to 1.0 instead of 6.0.
Violates: "solve(dt_total) advances the model from its current time t0 to exactly t0+dt_total: accepted times are
strictly increasing" for "couplings of several models".
'''
import sys, os
sys.path.insert(0, os.path.dirname(os.path.abspath(__file__)))
import numpy as np
from _toy import Toy
from kawin.GenericModel import Coupler

a = Toy([0.5])
a.solve(5.0)
assert a.accepted[-1] == 5.0
b = Toy([0.1])
cp = Coupler([a, b])
cp.solve(1.0)
steps = np.diff(a.accepted)
bad = []
if not np.all(steps > 0):
    i = int(np.argmax(steps <= 0))
    bad.append('model a accepted %r after %r' % (a.accepted[i+1], a.accepted[i]))
if a.accepted[-1] != 6.0:
    bad.append('model a was at 5.0, coupled solve(1.0) left it at %r' % a.accepted[-1])
if bad:
    print('FAIL'); print('\n'.join('  ' + b for b in bad)); sys.exit(1)
print('PASS')
