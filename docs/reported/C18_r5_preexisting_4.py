'''
Pre-existing (unmodified tree): "When attached to a precipitation model the strength history has exactly
one entry per host step ... over any number of solve calls" is violated when the host is reset and solved
again (host.reset() is what TTPCalculator does for every temperature, and what the example notebooks do
between runs).

PrecipitateBase.reset() does not touch the coupled models ("this will not reset the coupling models"),
GrainGrowthModel offers its own reset(), but StrengthModel has no reset at all: its history keeps growing
over the old run, so rss/ls/solidStrength no longer match host.pData.time (plotStrength then fails with a
shape mismatch) and the entries of the two runs are mixed. The only way out is to build a new StrengthModel.
(For the grain growth model the user has to remember to call grainModel.reset() as well, otherwise its
clock keeps running from the end of the previous run.)

The host is a thermodynamics-free subclass of PrecipitateBase (real solve loop / postProcess / reset).
exit 1 (and prints FAIL) if the history is misaligned after reset + solve, exit 0 otherwise
'''
import sys, warnings
import numpy as np
warnings.filterwarnings('ignore')
from kawin.precipitation.KWNBase import PrecipitateBase
from kawin.precipitation.PopulationBalance import PopulationBalanceModel
from kawin.precipitation.coupling import StrengthModel, GrainGrowthModel


class SyntheticHost(PrecipitateBase):
    def __init__(self):
        super().__init__(phases=['beta'], elements=['X'])
        self.PBM = [PopulationBalanceModel(1e-10, 1e-8, 60)]
        r = self.PBM[0].PSDsize
        self.PBM[0].PSD = 1e20 * np.exp(-0.5 * ((r - 3e-9) / 0.5e-9)**2)
        self.growth = [np.zeros(self.PBM[0].bins + 1)]
        self.setTemperature(500)
    def setup(self):
        if self._isSetup:
            return
        self.pData.composition[0] = 0.01
        self.pData.temperature[0] = 500
        self._isSetup = True
    def getCurrentX(self):
        return self.pData.time[self.pData.n], [self.PBM[0].PSD]
    def getDt(self, dXdt):
        return 0.1
    def _processX(self, x):
        pass
    def _calcMassBalance(self, t, x, Y):
        Y.precipitateDensity[0, 0] = np.sum(x[0])
        Y.Ravg[0, 0] = 3e-9 * (1 + t)**(1/3)
        Y.volFrac[0, 0] = min(1e-3 * t, 0.02)
        Y.composition[0, 0] = 0.01 - 0.25 * Y.volFrac[0, 0]
        return Y
    def _calcNucleationRate(self, t, x, Y):
        return Y
    def _growthRate(self, Y):
        return self.growth, Y
    def _getdXdt(self, t, x, Y, growth):
        return [np.zeros(len(x[0]))]
    def _correctdXdt(self, dt, x, dXdt, Y, growth):
        pass
    def _updateParticleSizeDistribution(self, t, x):
        self.PBM[0].PSD = x[0]


sm = StrengthModel()
sm.setDislocationParameters(25.4e9, 0.286e-9, 0.34)
sm.setCoherencyParameters(0.008)
sm.setSolidSolutionStrength({'X': 1e9}, 1)
gg = GrainGrowthModel(1e-7, 5e-6)
gg.LoadDistributionFunction(lambda R: np.exp(-0.5 * ((R - 1e-6) / 2e-7)**2))

host = SyntheticHost()
host.addCouplingModel(sm)
host.addCouplingModel(gg)
host.solve(1.0)
print('run 1        : host entries {:3d}, strength entries {:3d}, host clock {:.2f}, grain clock {:.2f}'.format(len(host.pData.time), len(sm.rss), host.pData.time[-1], gg.time[-1]))
ok1 = len(sm.rss) == len(host.pData.time)

host.reset()
gg.reset()          #as in the example notebook; the strength model has nothing comparable
print('StrengthModel has a reset method:', hasattr(sm, 'reset'))
host.solve(0.5)
print('run 2 (reset): host entries {:3d}, strength entries {:3d}, host clock {:.2f}, grain clock {:.2f}'.format(len(host.pData.time), len(sm.rss), host.pData.time[-1], gg.time[-1]))
ok2 = len(sm.rss) == len(host.pData.time) and len(sm.ls) == len(host.pData.time) and len(sm.solidStrength) == len(host.pData.time)
if not (ok1 and ok2):
    print('FAIL: after host.reset() + solve the strength history has {} entries for {} host entries'.format(len(sm.rss), len(host.pData.time)))
    sys.exit(1)
print('PASS')
sys.exit(0)
