"""
Pre-existing (unmodified tree): GeneralThermodynamics keeps the caller's `phases` list
(self.phases = phases, no copy) and _forceDisorder overwrites its first entry with
'DIS_<matrix>'.  If the same list (and the same Database object) is then used to build
the thermodynamics object for the other solute order, that object no longer recognises
FCC_L12 as an ordered phase (orderedPhase = False) and returns a different driving force
and precipitate composition.  So "the same arguments, solutes listed in the other order"
changes more than a permutation (C11, first sentence: "... and changes nothing else").

With a database given as a TDB string/file name the second construction fails loudly
instead (KeyError: 'DIS_FCC_A1').
Exit code 1 = defect present.
"""
import sys, warnings
import numpy as np
warnings.filterwarnings('ignore')
from pycalphad import Database
from kawin.thermo import MulticomponentThermodynamics
from kawin.tests.datasets import NICRAL_TDB

db = Database(NICRAL_TDB)
phases = ['FCC_A1', 'FCC_L12']
T, xCR, xAL = 1073.15, 0.01, 0.01          #undersaturated matrix (negative driving force)

th1 = MulticomponentThermodynamics(db, ['NI', 'CR', 'AL'], phases, drivingForceMethod='tangent')
print('caller\'s phases list after the first construction:', phases)
th2 = MulticomponentThermodynamics(db, ['NI', 'AL', 'CR'], phases, drivingForceMethod='tangent')
th3 = MulticomponentThermodynamics(db, ['NI', 'AL', 'CR'], ['FCC_A1', 'FCC_L12'], drivingForceMethod='tangent')   #control: fresh list

dg1, xb1 = th1.getDrivingForce([xCR, xAL], T, removeCache=True)
dg2, xb2 = th2.getDrivingForce([xAL, xCR], T, removeCache=True)
dg3, xb3 = th3.getDrivingForce([xAL, xCR], T, removeCache=True)
print('[NI,CR,AL]               dg = %.4f  x_beta(CR,AL) = %s' % (dg1, xb1))
print('[NI,AL,CR] same list     dg = %.4f  x_beta(CR,AL) = %s   orderedPhase = %s' % (dg2, xb2[::-1], th2.orderedPhase))
print('[NI,AL,CR] fresh list    dg = %.4f  x_beta(CR,AL) = %s   orderedPhase = %s' % (dg3, xb3[::-1], th3.orderedPhase))

ok_control = np.isclose(dg1, dg3, rtol=1e-6) and np.allclose(xb1, xb3[::-1], rtol=1e-6)
ok = np.isclose(dg1, dg2, rtol=1e-6) and np.allclose(xb1, xb2[::-1], rtol=1e-6) and phases == ['FCC_A1', 'FCC_L12']
if ok:
    print('PASS'); sys.exit(0)
print('FAIL (control with a fresh phases list agrees: %s)' % ok_control); sys.exit(1)
