'''
Pre-existing (unmodified tree, arguable: nothing documents who has to reset a re-used condition):
addStoppingCondition() does not reset the condition it is given and a model that has never been reset does not
reset it either. A condition object that was satisfied in a run of model A and is then registered on a fresh model B
ends B's run after its very first step, although the monitored quantity of B never reaches the threshold, and
reports the crossing time of A's run.
Violates: 'ends at the first step at which the ... conditions are satisfied and otherwise runs to the requested end time'.
'''
import sys, warnings, io, contextlib
warnings.filterwarnings('ignore')
import numpy as np
from kawin.GenericModel import Coupler
from kawin.precipitation import PrecipitateBase, TTPCalculator
from kawin.precipitation.StoppingConditions import Inequality, VolumeFractionCondition, AverageRadiusCondition

class ScriptedModel(PrecipitateBase):
    '''script(t) -> dict attribute name -> values for each phase (or element)'''
    def __init__(self, phases, elements, script, dt):
        super().__init__(phases=phases, elements=elements)
        self.script, self.dt, self.growth = script, dt, None
        self.setInitialComposition(0.01 if len(elements) == 1 else [0.01]*len(elements))
        self.setTemperature(500)
        self.setVolumeAlpha(1e-5, 'VM', 4)
        for ph in phases:
            self.setVolumeBeta(1e-5, 'VM', 4, phase=ph)
    def _fill(self, Y, t):
        for k, v in self.script(t).items():
            getattr(Y, k)[0] = v
        return Y
    def setup(self):
        if self._isSetup:
            return
        super().setup()
        self.pData.setSlice(self._fill(self.pData.copySlice(0), 0.0), 0)
    def getCurrentX(self): return self.pData.time[self.pData.n], [np.zeros(1)]
    def getDt(self, dXdt): return self.dt
    def _processX(self, x): pass
    def _calcMassBalance(self, t, x, Y): return self._fill(Y, t)
    def _calcNucleationRate(self, t, x, Y): return Y
    def _growthRate(self, Y): return None, Y
    def _getdXdt(self, t, x, Y, growth): return [np.zeros(1)]
    def _correctdXdt(self, dt, x, dXdt, Y, growth): pass
    def _updateParticleSizeDistribution(self, t, x): pass


cond = VolumeFractionCondition(Inequality.GREATER_THAN, 0.05)

mA = ScriptedModel(['A'], ['X'], lambda t: dict(volFrac=[0.01*t]), dt=0.3)
mA.addStoppingCondition(cond)
mA.solve(20)
print('model A: ended at t = %.2f, condition met at t = %.4f' % (mA.pData.time[-1], cond.satisfiedTime()))

#fresh model whose volume fraction stays below 0.02 < 0.05 during the whole run
mB = ScriptedModel(['A'], ['X'], lambda t: dict(volFrac=[0.001*t]), dt=0.3)
mB.addStoppingCondition(cond)
mB.solve(20)
print('model B: ended at t = %.2f (max volume fraction %.4f, threshold 0.05), condition reports satisfied=%s at t = %.4f'
      % (mB.pData.time[-1], mB.pData.volFrac.max(), cond.isSatisfied(), cond.satisfiedTime()))

ok = mB.pData.time[-1] == 20 and not cond.isSatisfied() and cond.satisfiedTime() == -1
print('PASS' if ok else 'FAIL')
sys.exit(0 if ok else 1)
