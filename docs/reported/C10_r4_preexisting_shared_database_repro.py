import numpy as np
from pycalphad import Database
from kawin.thermo import MulticomponentThermodynamics
from kawin.tests.datasets import NICRAL_TDB
db = Database(NICRAL_TDB)
t1 = MulticomponentThermodynamics(db, ['NI','CR','AL'], ['FCC_A1','FCC_L12'])
print(t1.phases, t1.getTracerDiffusivity([0.08,0.1],1073.15), t1.getInterdiffusivity([0.08,0.1],1073.15))
t2 = MulticomponentThermodynamics(db, ['NI','CR','AL'], ['FCC_A1','FCC_L12'])
print(t2.phases, t2.getTracerDiffusivity([0.08,0.1],1073.15), t2.getInterdiffusivity([0.08,0.1],1073.15))
