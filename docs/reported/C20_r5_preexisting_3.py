'''
Pre-existing (unmodified tree): a diffusion model loaded from a file restarts from the initial profile at its next solve call.

DiffusionModel.load/fromDict restores t, x and the recorded history but leaves isSetup False, so the first solve() after load()
runs setup(): the composition profile is rebuilt over the loaded x and record(t) appends the *initial* profile to the loaded
history at the loaded (final) time.  model.setup() alone (the first thing solve() does) is used here.

Sentence of C20: first sentence (diffusion model, "the current state", "every recorded history", saved between solve calls).
'''
import sys, os, tempfile, warnings
warnings.filterwarnings('ignore')
import numpy as np
from kawin.tests.datasets import NICRAL_TDB
from kawin.thermo import MulticomponentThermodynamics
from kawin.diffusion import SinglePhaseModel
from kawin.diffusion.DiffusionParameters import CompositionProfile, TemperatureParameters

therm = MulticomponentThermodynamics(NICRAL_TDB, ['NI', 'CR', 'AL'], ['FCC_A1'])
def makeModel():
    cp = CompositionProfile()
    cp.addLinearCompositionStep('CR', 0.077, 0.359)
    cp.addLinearCompositionStep('AL', 0.054, 0.062)
    return SinglePhaseModel([-1e-3, 1e-3], 20, ['NI', 'CR', 'AL'], ['FCC_A1'], thermodynamics=therm,
                            compositionProfile=cp, temperatureParameters=TemperatureParameters(1200+273.15))

m = makeModel()
m.solve(10*3600)
f = os.path.join(tempfile.mkdtemp(), 'diff')
m.save(f)
m2 = makeModel()
m2.load(f)
assert np.array_equal(m.x, m2.x) and np.array_equal(m._recordedX, m2._recordedX) and np.array_equal(m._recordedTime, m2._recordedTime)
print('equal right after load: True')

x, rx, rt = m2.x.copy(), m2._recordedX.copy(), m2._recordedTime.copy()
m2.setup()      #first thing solve() does
bad = []
if not np.array_equal(x, m2.x):
    bad.append('current profile changed by max %.3e (now equal to the initial profile: %s)' % (np.abs(x - m2.x).max(), np.allclose(m2.x, rx[0])))
if m2._recordedX.shape != rx.shape:
    bad.append('recorded history grew from %d to %d entries, times %s' % (len(rt), len(m2._recordedTime), m2._recordedTime))
if bad:
    print('\n'.join(bad))
    print('FAIL')
    sys.exit(1)
print('PASS')
