# Unmodified tree: DiffusionModel.setBC(..., element=None) is silently ignored.
# Every composition setter maps element=None to the first independent element, setBC stores the
# condition under the dictionary key None, which is never looked up.
import numpy as np
from kawin.diffusion import SinglePhaseModel
from kawin.diffusion.DiffusionParameters import BoundaryConditions as BC
class D:
    def clearCache(self): pass
    def getInterdiffusivity(self, x, T, phase=None): return 1e-14
m = SinglePhaseModel([0, 1e-3], 10, ['A', 'B'], ['P'], thermodynamics=D())
m.setTemperature(1000)
m.setCompositionLinear(0.1, 0.5)                   # element=None -> 'B'
m.setBC(BC.COMPOSITION_BC, 0.3, BC.FLUX_BC, 0)     # element=None -> key None, ignored
m.solve(1e6)
print(m.boundaryConditions.leftBCtype, m.x[0, 0])  # {None: 1, 'B': 0} 0.1265...  (neither 0.3 nor constant)
