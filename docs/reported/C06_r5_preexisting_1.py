'''
Pre-existing violation of C06 on the UNMODIFIED tree (exit 1 = violation present).

Sentence violated: "... the Runge-Kutta iterator [is] fourth-order accurate in the step size".

For the models of kawin that are built on the population balance model (GrainGrowthModel, PrecipitateModel) the
Runge-Kutta step is not a Runge-Kutta step.  Their correctdXdt hook (GrainGrowthModel.correctdXdt, KWNEuler._correctdXdt
-> PopulationBalanceModel.correctdXdtEuler) does not correct the slope it is handed: it REPLACES it with a slope
rebuilt from PopulationBalanceModel._netFlux, i.e. from whatever the last call of getdXdtEuler left behind.  RK4Iterator
ends with updateX(X_old, (k1+2k2+2k3+k4)/6, dt); DESolver._updateX passes the weighted sum through correctdXdt, which throws
it away and returns the slope of the fourth stage.  The accepted state is X_n + dt*k4 = X_n + dt*f(t+dt, X_n + dt*k3):
a first order scheme (and RK4 is the default solverType of these models).

No thermodynamics is needed: GrainGrowthModel alone shows it.  The distribution is broad, so that no bin can be emptied
in the step and the "correction" has nothing to correct (it should be the identity).
'''
import sys, warnings
warnings.filterwarnings('ignore')
import numpy as np
from scipy.integrate import solve_ivp
from kawin.precipitation.coupling.GrainGrowth import GrainGrowthModel
from kawin.solver.Solver import DESolver, SolverType
from kawin.solver.Iterators import RK4Iterator

def make():
    g = GrainGrowthModel(1e-6, 1e-4, bins=60, minBins=40, maxBins=100)
    g.LoadDistributionFunction(lambda R: np.exp(-((R-5e-5)/4e-5)**2))
    g.setTimeInfo(0, 1e9)
    return g

def oneStep(h):
    '''One RK4 step of size h of the grain growth model, wired exactly as GenericModel.solve wires it'''
    g = make()
    x0 = np.array(g.getCurrentX()[1][0])
    s = DESolver(SolverType.RK4)
    s.setdXdtFunctions(g.getdXdt, g.correctdXdt, g.getDt, g.flattenX, g.unflattenX)
    s._dtmin, s._dtmax, s._X0 = 0, h, [x0]
    xn, dt = RK4Iterator(s._getdXdt, 0.0, g.flattenX([x0]), s._updateX)
    assert dt == h
    return x0, xn

g = make()
f = lambda t, y: g.getdXdt(t, [y])[0]
x0 = np.array(g.getCurrentX()[1][0])
hmax = g.getDt([f(0, x0)])          #the step the model itself would choose (stable, nothing is emptied)

#1. the accepted state is X + dt*k4 and not the Runge-Kutta combination
h = hmax
k1 = f(0, x0); k2 = f(h/2, x0 + k1*h/2); k3 = f(h/2, x0 + k2*h/2); k4 = f(h, x0 + k3*h)
rk = x0 + h/6*(k1 + 2*k2 + 2*k3 + k4)
_, xn = oneStep(h)
step = np.abs(rk - x0).max()
dRK = np.abs(xn - rk).max()/step
dK4 = np.abs(xn - (x0 + h*k4)).max()/step
print('smallest entry of the true RK4 result: %.3e (positive: nothing to correct)' % rk.min())
print('|accepted - RK4 combination| / |step| = %.3e' % dRK)
print('|accepted - (X + dt*k4)|     / |step| = %.3e' % dK4)

#2. local error of one step against a tight reference: RK4 must fall by ~2^5 per halving, observed ~2^2
errs = []
for hh in (hmax/4, hmax/8, hmax/16):
    ref = solve_ivp(f, [0, hh], x0, method='DOP853', rtol=1e-13, atol=1e-3).y[:,-1]
    errs.append(np.abs(oneStep(hh)[1] - ref).max())
errs = np.array(errs)
p = np.log2(errs[:-1]/errs[1:])
print('local errors', errs, 'observed local order', p, '(RK4: 5, first order scheme: 2)')

if dRK > 1e-6 or np.any(p < 4.5):
    print('FAIL: RK4 on the population balance models is X + dt*k4 (first order), the weighted stage sum is discarded')
    sys.exit(1)
print('PASS')
