'''
Pre-existing (unmodified tree): "Zener drag ... freezes the structure when strong enough" is violated.

The drag is far above every curvature driving force (z = f/(K r) = 3.75e7 1/m, 1/Rcr ~ 1e6 1/m), so
constrainedGrowth gives a growth rate of exactly zero for every size class. The grain size
distribution nevertheless changes during the first two steps because postProcess re-meshes the size
classes (adjustSizeClassesEuler(True) -> changeSizeClasses): number of classes 150 -> 200 -> 100,
mean grain size +0.25 % and then +1e-4, number of grains -0.8 %. Same root cause as preexisting_1.

exit 1 (and prints FAIL) if the fully pinned structure changes, exit 0 otherwise
'''
import sys, warnings
from types import SimpleNamespace
import numpy as np
warnings.filterwarnings('ignore')
from kawin.precipitation.coupling import GrainGrowthModel

np.random.seed(0)
g = GrainGrowthModel(cMin=1e-7, cMax=2e-5)
g.setGrainBoundaryMobility(1e-14)
g.LoadDistribution(np.random.lognormal(mean=np.log(1e-6), sigma=0.2, size=100000))

#Precipitate state handed over by a host model: 5 % of 1 nm particles
host = SimpleNamespace(phases=['beta'], pData=SimpleNamespace(n=0, Ravg=np.array([[1e-9]]), volFrac=np.array([[0.05]])))
g.computeZenerRadius(host)
rate = g.constrainedGrowth(g.grainGrowth(g.pbm.PSD), g._z)
print('drag z = {:.3e} 1/m, 1/Rcr = {:.3e} 1/m, constrained growth rate identically zero: {}'.format(g._z, 1/g.Rcr(g.pbm.PSD), bool(np.all(rate == 0))))
assert np.all(rate == 0)

n0, b0 = g.pbm.ZeroMoment(), g.pbm.bins
for k in range(4):
    g.solve(10.0)
    rate = g.constrainedGrowth(g.grainGrowth(g.pbm.PSD), g._z)
    print('t = {:4.0f} s  mean radius {:.9e}  classes {:3d}  number of grains {:.6e}  growth rate all zero: {}'.format(g.time[-1], g.avgR[-1], g.pbm.bins, g.pbm.ZeroMoment(), bool(np.all(rate == 0))))

rel = np.abs(g.avgR[1:] / g.avgR[0] - 1)
if np.any(rel > 1e-9) or g.pbm.bins != b0 or abs(g.pbm.ZeroMoment()/n0 - 1) > 1e-9:
    print('FAIL: fully pinned structure changed: mean grain size by up to {:.3e} (relative), number of grains by {:+.3e}'.format(rel.max(), g.pbm.ZeroMoment()/n0 - 1))
    sys.exit(1)
print('PASS')
sys.exit(0)
