"""
Pre-existing (unmodified tree): setStrainEnergy(strainEnergy, phase) stores the object it
is given, and PrecipitateParameters.validate() (run for every phase, in list order, by
setup()) re-types that object's energy description after the shape of *its* phase.  When
one StrainEnergy object (same elastic constants and eigenstrain) is given to two phases of
different shape (sphere / needle), the description chosen for the LAST listed phase is
used for both, so the strain energy - and with it driving force, nucleation and growth -
of each phase depends on the order in which the phases are listed (C11, second sentence).
With one StrainEnergy object per phase the two orders agree (control).
Exit code 1 = defect present.
"""
import sys, os, warnings
import numpy as np
sys.path.insert(0, os.path.dirname(os.path.abspath(__file__)))
warnings.filterwarnings('ignore')
from _analytic import AnalyticBinaryThermodynamics, compareRuns
from kawin.precipitation import PrecipitateModel, VolumeParameter
from kawin.precipitation.parameters.ElasticFactors import StrainEnergy

THERMO = {'BETA': dict(xb=0.25, A=8.0, Q=60e3), 'GAMMA': dict(xb=0.5, A=30.0, Q=62e3)}
GAMMA = {'BETA': 0.10, 'GAMMA': 0.12}

def strainEnergy():
    se = StrainEnergy()
    se.setElasticConstants(168.4e9, 121.4e9, 75.4e9)
    se.setEigenstrain([0.004, 0.004, 0.004])
    return se

def run(order, shared, simTime=5.0):
    m = PrecipitateModel(phases=list(order), elements=['B'])
    m.setPBMParameters(cMin=1e-10, cMax=1e-8, bins=60, minBins=40, maxBins=80)
    m.setInitialComposition(0.01)
    m.setVolumeAlpha(1e-5, VolumeParameter.MOLAR_VOLUME, 4)
    se = strainEnergy()
    for ph in order:
        m.setInterfacialEnergy(GAMMA[ph], phase=ph)
        m.setVolumeBeta(1e-5, VolumeParameter.MOLAR_VOLUME, 4, phase=ph)
        m.setNucleationSite('bulk', phase=ph)
        m.setStrainEnergy(se if shared else strainEnergy(), phase=ph)
    m.setPrecipitateShape('needle', phase='GAMMA', ratio=3)
    m.setTemperature(700.0)
    m.setThermodynamics(AnalyticBinaryThermodynamics(THERMO))
    m.solve(simTime)
    return m

o1 = ['BETA', 'GAMMA']; o2 = o1[::-1]
control = compareRuns(run(o1, False), run(o2, False), o1, o2)
a, b = run(o1, True), run(o2, True)
problems = compareRuns(a, b, o1, o2)
print('control (one StrainEnergy object per phase): %s' % ('orders agree' if not control else control))
print('shared object, descriptions used  order 1: %s  order 2: %s' % (
    [type(p.strainEnergy.description).__name__ for p in a.precipitateParameters],
    [type(p.strainEnergy.description).__name__ for p in b.precipitateParameters]))
if problems:
    for p in problems: print('  ' + p)
    print('FAIL'); sys.exit(1)
print('PASS'); sys.exit(0)
