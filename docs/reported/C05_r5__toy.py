import numpy as np
from kawin.GenericModel import GenericModel

class StepLimit(Exception):
    pass

class Toy(GenericModel):
    '''dx/dt = 1 model that records every accepted time; dts is the cyclic list of proposed steps'''
    def __init__(self, dts, t0=0.0, maxSteps=5000):
        super().__init__()
        self.t, self.dts, self.k = t0, dts, 0
        self.X = [np.zeros(3), 0.0]
        self.accepted = [t0]
        self.maxSteps = maxSteps

    def getCurrentX(self):
        return self.t, self.X

    def getdXdt(self, t, x):
        return [np.ones(3), 1.0]

    def getDt(self, dXdt):
        d = self.dts[self.k % len(self.dts)]
        self.k += 1
        return d

    def postProcess(self, time, x):
        self.t, self.X = time, x
        self.accepted.append(time)
        if len(self.accepted) > self.maxSteps:
            raise StepLimit('more than %d steps, last accepted times %r' % (self.maxSteps, self.accepted[-3:]))
        return x, False
