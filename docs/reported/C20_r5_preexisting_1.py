'''
Pre-existing (unmodified tree): a precipitation model loaded from a file loses the loaded state at its next solve call.

PrecipitateModel.load/fromDict restores pData and the PBM arrays but leaves _isSetup False, so the first solve() after
load() runs setup(): _setupAspectRatio() calls PBM.reset() (the loaded size distribution becomes all zeros) and
setup() recomputes the slice pData[n] from the emptied distribution and writes it over the last row of the loaded histories.
The same happens with model.setup() alone, which is what is used here (solve(dt) calls it first).

Sentence of C20: "Saving any precipitation ... model ... and loading the file into a freshly constructed model of the same
configuration reproduces every recorded history, the current state and the size distributions exactly ... whatever the ...
point between solve calls at which it was saved" - a mid-run save is only useful if the loaded state survives the next solve call.
'''
import sys, os, tempfile
sys.path.insert(0, os.path.dirname(os.path.abspath(__file__)))
import numpy as np
from _alzr import makeModel

m = makeModel()
m.solve(600)
f = os.path.join(tempfile.mkdtemp(), 'midrun')
m.save(f)

m2 = makeModel()
m2.load(f)
n = m2.pData.n
ok = True
#right after load everything agrees
for name in m.pData.ATTRIBUTES:
    ok &= np.array_equal(getattr(m.pData, name), getattr(m2.pData, name))
ok &= np.array_equal(m.PBM[0].PSD, m2.PBM[0].PSD)
print('equal right after load:', ok)

hist = {name: getattr(m2.pData, name).copy() for name in m2.pData.ATTRIBUTES}
psd = m2.PBM[0].PSD.copy()
m2.setup()      #first thing solve() does
bad = []
if not np.array_equal(psd, m2.PBM[0].PSD):
    bad.append('size distribution: sum %.3e -> %.3e' % (psd.sum(), m2.PBM[0].PSD.sum()))
for name in hist:
    if not np.array_equal(hist[name], getattr(m2.pData, name)):
        bad.append('history %s row %d: %s -> %s' % (name, n, hist[name][n], getattr(m2.pData, name)[n]))
if bad or not ok:
    print('\n'.join(bad))
    print('FAIL')
    sys.exit(1)
print('PASS')
