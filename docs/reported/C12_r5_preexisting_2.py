'''
Pre-existing violation of C12 (unmodified tree):
  "the critical radius used for nucleation is the radius at which growth changes sign: in every
   precipitation state, binary or multicomponent, size classes larger than the critical radius grow
   and smaller ones shrink"

PrecipitateParameters(name, phase=...) separates the output name of a precipitate from the phase
name in the database, so two precipitate populations of the SAME database phase (here Al3Zr nucleating
in the bulk with gamma = 0.1 J/m2 and on dislocations with gamma = 0.05 J/m2) can be given to
PrecipitateModel(precipitateParameters=[...]).  PrecipitateBase keys its phase list on .phase
(self.phases = [p.phase ...]) and phaseIndex() returns the FIRST match, so
particleGibbs(radius, precipitateParameters[1].phase) evaluates the Gibbs-Thomson energy with the
interfacial energy / molar volume / shape of population 0.  The critical radius of population 1
(NucleationRate.nucleationBarrier) uses its own gamma.  Result: population 1 nucleates at
Rcrit = 0.37 nm while its size classes only start to grow at 0.74 nm.
'''
import sys, warnings
import numpy as np
warnings.filterwarnings('ignore')
from kawin.tests.datasets import ALZR_TDB
from kawin.thermo import BinaryThermodynamics
from kawin.precipitation import PrecipitateModel, VolumeParameter, PrecipitateParameters, MatrixParameters

th = BinaryThermodynamics(ALZR_TDB, ['AL', 'ZR'], ['FCC_A1', 'AL3ZR'], drivingForceMethod='tangent')
th.setDiffusivity(lambda T: 0.0768*np.exp(-242000/(8.314*T)), 'FCC_A1')
a = 0.405e-9
precs = []
for name, gam, site in [('AL3ZR_bulk', 0.1, 'bulk'), ('AL3ZR_disl', 0.05, 'dislocations')]:
    p = PrecipitateParameters(name, phase='AL3ZR')
    p.gamma = gam
    p.volume.setVolume(a**3, VolumeParameter.ATOMIC_VOLUME, 4)
    p.nucleation.setNucleationType(site)
    precs.append(p)
mp = MatrixParameters(['ZR'])
mp.volume.setVolume(a**3, VolumeParameter.ATOMIC_VOLUME, 4)
mp.initComposition = 6e-4
m = PrecipitateModel(precipitateParameters=precs, matrixParameters=mp, thermodynamics=th)
m.setPBMParameters(cMin=1e-10, cMax=4e-9, bins=800, minBins=600, maxBins=1000)
m.setTemperature(723.15)
m.setup()

ok = True
for p in range(2):
    R = m.PBM[p].PSDbounds; g = m.growth[p]
    pos = np.where(g > 0)[0]
    R0 = np.interp(0, [g[pos[0]-1], g[pos[0]]], [R[pos[0]-1], R[pos[0]]])
    Rcrit = m.pData.Rcrit[0, p]
    bad = ((R > 1.02*Rcrit) & (g <= 0)).sum()
    print('%s (gamma %.2f): Rcrit %.4e m, growth changes sign at %.4e m, classes above 1.02*Rcrit that shrink: %d' % (precs[p].name, precs[p].gamma, Rcrit, R0, bad))
    if bad or abs(R0/Rcrit - 1) > 0.02:
        ok = False
if ok:
    print('PASS'); sys.exit(0)
print('FAIL: growth of the second population changes sign at the critical radius of the first one'); sys.exit(1)
