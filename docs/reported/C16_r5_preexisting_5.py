'''
PRE-EXISTING (unmodified tree), minor: moduliToC(E=..., M=...) always takes the positive root
S = +sqrt(E^2 + 9M^2 - 10EM). The pair (E, M) has two mechanically stable solutions, one with nu > 0 and one with
nu < 0 (nu = ((e-1) +- sqrt(e^2-10e+9))/4, e = E/M); for an auxetic material (-1 < nu < 0, positive-definite
stiffness, all six moduli positive) the (E, M) pair silently returns the stiffness of the OTHER material (same c11,
different c12 / c44) while the 14 other pairs round-trip.

Violates (weakly - the pair is genuinely ambiguous, but nothing is documented or reported): "elastic-modulus
conversions round-trip ... all pairs of elastic moduli accepted as input".
'''
import sys, itertools
import numpy as np
from kawin.precipitation.parameters.ElasticFactors import moduliToC

bad = False
for nu in (-0.2, -0.5):
    G = 50e9
    E = 2*G*(1+nu); lam = 2*G*nu/(1-2*nu); K = 2*G*(1+nu)/(3*(1-2*nu)); M = 2*G*(1-nu)/(1-2*nu)
    mod = dict(E=E, nu=nu, G=G, lam=lam, K=K, M=M)
    ref = moduliToC(G=G, nu=nu)
    assert np.all(np.linalg.eigvalsh(ref) > 0)
    for pair in itertools.combinations(mod, 2):
        c = moduliToC(**{k: mod[k] for k in pair})
        if not np.allclose(c, ref, rtol=1e-9, atol=1.0):
            print(f'nu = {nu}: pair {pair} -> c11 {c[0,0]:.4e} (ref {ref[0,0]:.4e})  c12 {c[0,1]:.4e} (ref {ref[0,1]:.4e})  c44 {c[3,3]:.4e} (ref {ref[3,3]:.4e})')
            bad = True
print('FAIL (defect present)' if bad else 'PASS')
sys.exit(1 if bad else 0)
