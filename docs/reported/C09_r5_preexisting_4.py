"""
Pre-existing violation of C09 on the unmodified tree: driving force methods 'approximate' and 'curvature'
with the default removeCache=False.

Sentence violated: "The value returned ... by the driving-force ... queries does not depend on which queries
were made before ...; repeating a call gives the same answer".

Ni-Cr-Al, FCC_A1 / FCC_L12:
    query 1: x = (Cr 0.02, Al 0.17), T = 973.15 K
    query 2: x = (Cr 0.20, Al 0.10), T = 973.15 K  (two-phase for a global equilibrium)
Query 2 right after query 1: _getCompositionSetsForDF updates the composition sets cached by query 1 with a
local equilibrium, a phase drops out, and the method silently switches to the *sampling* method for this call
(a different driving force and a different precipitate composition, see the printed values). The failed attempt
clears the cache, so repeating exactly the same call then returns the regular value again: two different answers
for one (x, T) depending on history.
"""
import sys, warnings
warnings.filterwarnings('ignore')
import numpy as np
from kawin.thermo import MulticomponentThermodynamics
from kawin.tests.datasets import NICRAL_TDB

q1 = ([0.02, 0.17], 973.15)
q2 = ([0.20, 0.10], 973.15)
ok = True
for method in ['approximate', 'curvature']:
    def make():
        return MulticomponentThermodynamics(NICRAL_TDB, ['NI', 'CR', 'AL'], ['FCC_A1', 'FCC_L12'], drivingForceMethod=method)
    dg_alone, xp_alone = make().getDrivingForce(*q2)
    th = make()
    th.getDrivingForce(*q1)
    dg_after, xp_after = th.getDrivingForce(*q2)
    dg_repeat, xp_repeat = th.getDrivingForce(*q2)
    print(f'{method:12s} query 2 alone: {float(dg_alone):10.4f} {xp_alone} | after query 1: {float(dg_after):10.4f} {xp_after} | repeated: {float(dg_repeat):10.4f} {xp_repeat}')
    if not (np.isclose(dg_alone, dg_after, rtol=1e-2) and np.isclose(dg_after, dg_repeat, rtol=1e-2)):
        ok = False
if ok:
    print('PASS')
    sys.exit(0)
print('FAIL: the driving force at query 2 depends on the query made before it, and changes when the call is repeated')
sys.exit(1)
