"""
Pre-existing (unmodified tree): the mass balance of a step is evaluated on a size distribution that
contains NEGATIVE number densities, which are then clipped away when the distribution is stored.

PopulationBalanceModel.correctdXdtEuler limits the flux through each class boundary separately
(|J_left| dt <= N_i and |J_right| dt <= N_i), so a class that drains through both boundaries (the class
holding the critical radius; or any class in an RK4 step, whose final update re-uses the last-stage fluxes
with the distribution of the start of the step) can end up with N_i < 0.  PrecipitateModel._calcMassBalance
computes volFrac / fconc / matrix composition from that x, and only afterwards
PopulationBalanceModel.UpdatePBMEuler sets PSD[PSD < 1] = 0.

Consequence for C01 ("... where the precipitate content is what one obtains by summing particle volume
times interfacial precipitate composition over the size distribution of each phase"): at such a step the
recorded fconc/volFrac (and hence the matrix composition) do not belong to the size distribution of that
step; with setInfinitePrecipitateDiffusivity(False) the offset is carried in fconc for the rest of the run.

Scenario 1: plain isothermal run, explicit Euler (mismatch ~1e-7..1e-6 relative, right after a re-binning).
Scenario 2: up-quench (temperature function with a step), default RK4 (mismatch of several percent).
Exit 1 if a step is found whose recorded precipitate solute differs from the sum over its recorded
size distribution by more than 1e-7 (relative).
"""
import sys, warnings
import numpy as np
warnings.filterwarnings('ignore')
from kawin.precipitation import PrecipitateModel, VolumeParameter
from kawin.solver import SolverType

R_GAS = 8.314
XBETA = 0.25

class AnalyticBinaryTherm:
    numElements = 2
    def __init__(self, xmax):
        self.xmax = xmax        #matrix composition above which a precipitate of that curvature is reported as not stable (-1)
    def xeq(self, T):
        return 5e-4*np.exp(-60000/R_GAS*(1/T - 1/723.15))
    def getDrivingForce(self, x, T, precPhase=None, removeCache=False, **kw):
        x = np.clip(np.atleast_1d(np.squeeze(x)).astype(float), 1e-300, 1-1e-12)
        T = np.atleast_1d(T).astype(float)
        xe = self.xeq(T)
        dg = R_GAS*T*(XBETA*np.log(x/xe) + (1-XBETA)*np.log((1-x)/(1-xe)))
        return dg, XBETA*np.ones(dg.shape)
    def getInterfacialComposition(self, T, gExtra=0, precPhase=None):
        T = float(np.atleast_1d(T)[0])
        g = np.atleast_1d(gExtra).astype(float)
        xa = self.xeq(T)*np.exp(g/(R_GAS*T*XBETA))
        bad = xa > self.xmax
        xa, xb = np.where(bad, -1.0, xa), np.where(bad, -1.0, XBETA)
        if np.ndim(gExtra) == 0:
            return float(xa[0]), float(xb[0])
        return xa, xb
    def getInterdiffusivity(self, x, T, removeCache=False, **kw):
        return 0.0768*np.exp(-242000/(R_GAS*np.squeeze(T)))
    def getTracerDiffusivity(self, x, T, removeCache=False, **kw):
        d = 0.0768*np.exp(-242000/(R_GAS*np.atleast_1d(T)))
        return np.stack([d, d], axis=-1)

def run(label, temperature, simTime, solverType, infinite=True, xmax=0.01):
    m = PrecipitateModel(phases=['BETA'], elements=['B'])
    m.setPBMParameters(cMin=1e-10, cMax=1e-8, bins=75, minBins=50, maxBins=100)
    m.setInitialComposition(4e-3)
    m.setTemperature(temperature)
    m.setInterfacialEnergy(0.1)
    a = 0.405e-9
    m.setVolumeAlpha(a**3, VolumeParameter.ATOMIC_VOLUME, 4)
    m.setVolumeBeta(a**3, VolumeParameter.ATOMIC_VOLUME, 4)
    m.setNucleationDensity(grainSize=1, dislocationDensity=1e15)
    m.setNucleationSite('dislocations')
    m.setInfinitePrecipitateDiffusivity(infinite)
    m.setThermodynamics(AnalyticBinaryTherm(xmax))
    m.setPSDrecording(True)

    #only for the report: remember the most negative class seen by the mass balance of a recorded step
    negatives = {}
    origMB = m._calcMassBalance
    def massBalance(t, x, Y):
        Y = origMB(t, x, Y)
        if np.any(x[0] < 0):
            negatives[t] = x[0].min()
        return Y
    m._calcMassBalance = massBalance
    m.solve(simTime, solverType=solverType)

    pd, pbm, prec = m.pData, m.PBM[0], m.precipitateParameters[0]
    K = m.matrixParameters.volume.Vm/prec.volume.Vm*prec.nucleation.volumeFactor
    worst, worstN, content_w = 0.0, -1, 0.0
    for n in range(pd.n+1):
        bounds = pbm._recordedBins[n]
        nb = len(np.nonzero(bounds)[0])
        if nb < 2 or pd.volFrac[n,0] < 1e-12:
            continue
        bounds = bounds[:nb]
        R = 0.5*(bounds[1:] + bounds[:-1])
        content = K*np.sum(pbm._recordedPSD[n,:nb-1]*R**3)*XBETA     #solute in precipitates from the size distribution of step n
        rel = abs(content - pd.fconc[n,0,0])/content
        if rel > worst:
            worst, worstN, content_w = rel, n, content
    print('%s: %d steps; worst step %d (t = %.1f s, T = %.1f K): recorded fconc = %.6e, sum over size distribution = %.6e, relative difference %.2e'
          % (label, pd.n, worstN, pd.time[worstN], pd.temperature[worstN], pd.fconc[worstN,0,0], content_w, worst))
    if pd.time[worstN] in negatives:
        print('    most negative number density in the x used for the mass balance of that step: %.3e /m3' % negatives[pd.time[worstN]])
    if not infinite:
        off = pd.fconc[-1,0,0] - XBETA*pd.volFrac[-1,0]*1.0
        print('    no-diffusion option: offset fconc - x_beta*volFrac still present at the last step: %.3e (precipitate solute %.3e)' % (off, XBETA*pd.volFrac[-1,0]))
    return worst

w1 = run('isothermal / explicit Euler', 723.15, 2e4, SolverType.EXPLICITEULER, xmax=0.1)
quench = lambda t: 723.15 if t < 8000 else 880.0
w2 = run('up-quench / RK4           ', quench, 8100, SolverType.RK4)
w3 = run('up-quench / RK4 / no prec. diffusion', quench, 8100, SolverType.RK4, infinite=False)
bad = max(w1, w2, w3) > 1e-7
print('FAIL (solute recorded for a step does not match its size distribution)' if bad else 'PASS')
sys.exit(1 if bad else 0)
