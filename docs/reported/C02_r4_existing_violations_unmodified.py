"""Two C02 violations of the UNMODIFIED tree, reproduced on the PopulationBalanceModel alone (no thermodynamics)."""
import numpy as np
from kawin.precipitation import PopulationBalanceModel

# (A) correctdXdtEuler limits the two outgoing fluxes of a class separately (each to PSD_i/dt).  The class that
#     contains the critical radius loses particles through BOTH faces, so for a dt that getDTEuler did not limit
#     (first step n=0, non-isothermal steps, dt raised to minDtFrac, classes below the dissolution index) it ends at -PSD_i.
#     The model then reports sum(x) including the negative class, UpdatePBMEuler zeroes it, and the next reported
#     number density is larger although the nucleation rate is zero.
pbm = PopulationBalanceModel(1e-10, 1e-8, 75)
pbm.PSD = 1e10*np.ones(75)
growth = np.linspace(-1e-9, 1e-9, 76)          # changes sign inside class 37
dt = 1e3
pbm.getdXdtEuler(growth, 0, 0, pbm.PSD)
xNew = pbm.PSD + pbm.correctdXdtEuler(dt, growth, 0, 0, pbm.PSD)*dt
reported = pbm.ZeroMomentFromN(xNew)           # what _calcMassBalance reports for this step
worst, where = xNew.min(), int(np.argmin(xNew))
pbm.UpdatePBMEuler(dt, xNew)
print('(A) most negative class after a limited step: %.3e (class %d); reported density %.6e, 0th moment of stored PSD %.6e'
      % (worst, where, reported, pbm.ZeroMoment()))

# (B) changeSizeClasses conserves the third moment only; the zeroth moment jumps, also upwards, so the number density
#     reported on the step after a re-mesh can exceed the one before it with zero nucleation rate.
pbm = PopulationBalanceModel(1e-10, 1e-8, 96, 50, 100)
r = pbm.PSDsize
pbm.PSD = 1e18*(r > 2e-9)*np.exp(-(r - 2e-9)/0.4e-9)
pbm.PSD[pbm.PSD < 1] = 0
pbm.PSD[-1] = 5.0                              # last class populated -> classes added -> more than maxBins -> re-mesh
n0, v0 = pbm.ZeroMoment(), pbm.ThirdMoment()
pbm.adjustSizeClassesEuler(False)
print('(B) re-mesh %d classes: 0th moment %.6e -> %.6e (%+.3f %%), 3rd moment ratio %.12f'
      % (pbm.bins, n0, pbm.ZeroMoment(), 100*(pbm.ZeroMoment()/n0 - 1), pbm.ThirdMoment()/v0))
