"""Pre-existing (unmodified tree): re-meshing to coarser classes can destroy the whole
distribution although the new grid covers the populated range.

Violated sentence of C08: "re-meshing preserves the third moment (particle volume) exactly
whenever the new grid covers the populated range".

changeSizeClasses samples the old distribution density (linear interpolation between the old
class centres) at the new class centres only. If the new classes are more than twice as wide
as the old ones, a narrow distribution can fall between two new centres: every sample is 0,
newV == 0, and the `else` branch sets the distribution to zero instead of conserving oldV.
This is reachable through the automatic adjustment alone (adaptive binning, default operation).
Exit code 1 = defect present.
"""
import sys
import warnings
warnings.filterwarnings('ignore')
import numpy as np
from kawin.precipitation import PopulationBalanceModel

failures = []

#1) automatic adjustment: monodisperse population that has reached the last class
pbm = PopulationBalanceModel(1e-10, 1e-9, bins=100, minBins=40, maxBins=100)
pbm.PSD[-1] = 1e8
v0, n0 = pbm.ThirdMoment(), pbm.ZeroMoment()
lo, hi = pbm.PSDbounds[-2], pbm.PSDbounds[-1]
pbm.adjustSizeClassesEuler()
covered = pbm.PSDbounds[0] <= lo and hi <= pbm.PSDbounds[-1]
print('adjustSizeClassesEuler: classes 100 -> %d, new grid [%g, %g] covers populated range [%g, %g]: %s' % (pbm.bins, pbm.PSDbounds[0], pbm.PSDbounds[-1], lo, hi, covered))
print('   third moment %g -> %g, particles %g -> %g' % (v0, pbm.ThirdMoment(), n0, pbm.ZeroMoment()))
if covered and not np.isclose(pbm.ThirdMoment(), v0, rtol=1e-9, atol=0):
    failures.append('automatic adjustment lost the particle volume')

#2) direct re-mesh to coarser classes on the same range, three adjacent populated classes
pbm = PopulationBalanceModel(1e-10, 1e-9, bins=150)
pbm.PSD[74:77] = [1e9, 3e9, 1e9]
v0 = pbm.ThirdMoment()
pbm.changeSizeClasses(1e-10, 1e-9, bins=20)
print('changeSizeClasses(1e-10, 1e-9, 20): third moment %g -> %g' % (v0, pbm.ThirdMoment()))
if not np.isclose(pbm.ThirdMoment(), v0, rtol=1e-9, atol=0):
    failures.append('re-mesh to coarser classes lost the particle volume')

if failures:
    print('DEFECT PRESENT: ' + '; '.join(failures))
    sys.exit(1)
print('no defect')
sys.exit(0)
