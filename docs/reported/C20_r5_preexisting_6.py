'''
Pre-existing (unmodified tree): StrengthModel (the strength model coupled to a precipitation model) cannot load what it saved
under the same name: save('strength') writes 'strength.npz' (np.savez appends the extension), load('strength') opens 'strength'.
(Same pattern as the loadRecordedPSD defect that was repaired.)  Also, a StrengthModel that has not been updated yet saves
None as pickled object arrays, which load() refuses (allow_pickle=False).

Sentence of C20: first sentence, if the strength model counts as a (coupled) precipitation model.
'''
import sys, os, tempfile
import numpy as np
from kawin.precipitation.coupling.Strength import StrengthModel

s = StrengthModel()
#what updateCoupledModel accumulates during a precipitation run
s.rss, s.ls, s.solidStrength = np.random.rand(5, 1), np.random.rand(5, 1), np.random.rand(5)
f = os.path.join(tempfile.mkdtemp(), 'strength')
s.save(f)
s2 = StrengthModel()
try:
    s2.load(f)
    ok = np.array_equal(s.rss, s2.rss) and np.array_equal(s.ls, s2.ls) and np.array_equal(s.solidStrength, s2.solidStrength)
except Exception as e:
    print('load failed:', repr(e))
    ok = False
if not ok:
    print('FAIL')
    sys.exit(1)
print('PASS')
