'''Reproducers for behaviour of the UNMODIFIED tree that already conflicts with C08 (informational).'''
import warnings; warnings.filterwarnings('ignore')
import io, contextlib
import numpy as np
from kawin.precipitation import PopulationBalanceModel as P

#1. Re-meshing to a coarser grid that covers the populated range loses the whole third moment when no new
#   class centre falls inside the (narrow) populated range: np.interp gives 0 everywhere, newV == 0, PSD is zeroed
q = P(1e-10, 1e-8, 200, 100, 300); q.addSizeClasses(120)      #320 classes > maxBins
q.PSD[3] = 5e10
v0 = q.ThirdMoment(); q.adjustSizeClassesEuler(False)
print('1. coarsening 320 -> {} classes: third moment {:.3e} -> {:.3e}'.format(q.bins, v0, q.ThirdMoment()))

#2. cMin = 0: the class count of a record is inferred from the number of non-zero boundaries, so the last class is dropped on load
q = P(0, 1e-8, 20, 10, 40); q.enableRecording(); q.UpdatePBMEuler(1.0, 5*np.ones(20))
with contextlib.redirect_stdout(io.StringIO()): q.setPSDtoRecordedTime(2.0)
print('2. cMin=0 record/load: classes 20 ->', q.bins, ', max 1e-8 ->', q.max, ', third moment changes')

#3. automatic adjustment with checkDissolution on a grid with <= minBins/2 classes raises IndexError
q = P(1e-10, 1e-8, 40, 100, 200); q.PSD[3] = 5
try: q.adjustSizeClassesEuler(True)
except IndexError as e: print('3. small grid:', e)
