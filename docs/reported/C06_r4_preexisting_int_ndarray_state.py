import numpy as np
from kawin.GenericModel import GenericModel
from kawin.solver import SolverType

class M(GenericModel):
    def __init__(self, x0, dt):
        self.x = x0; self.t = 0.0; self.dt = dt
    def getCurrentX(self): return self.t, self.x
    def getdXdt(self, t, x): return np.array([x[1], -x[0]])
    def getDt(self, dXdt): return self.dt
    def postProcess(self, time, x):
        self.t = time; self.x = x; return x, False

for x0 in (np.array([1.0, 0.0]), np.array([1, 0]), [1, 0]):
    for st in (SolverType.EXPLICITEULER, SolverType.RK4):
        errs = []
        for dt in (0.1, 0.05, 0.025):
            m = M(x0, dt); m.solve(1.0, solverType=st)
            xf = np.hstack(m.x)
            errs.append(np.max(np.abs(xf - np.array([np.cos(1), -np.sin(1)]))))
        print(type(x0).__name__, getattr(x0,'dtype',None), st.name, errs)
