'''
Pre-existing (unmodified tree), lower confidence (the docstring of saveRecordedPSD says it does nothing while recording is disabled):
after recording for a while and then switching the recording off between two solve calls, the recorded size distributions still
exist (disableRecording: "We won't clear the recorded bins here in case the user still wants to grab recorded data") but
saveRecordedPSD silently writes nothing, so the history cannot be saved; loadRecordedPSD then fails or picks up a stale file.
DiffusionModel.toDict was repaired for the analogous situation (it now keys on the data being present, not on the switch).

Sentence of C20: first sentence ("every recorded history ... whatever the recording options ... or point between solve calls").
'''
import sys, os, tempfile
import numpy as np
from kawin.precipitation.PopulationBalance import PopulationBalanceModel

pbm = PopulationBalanceModel(1e-10, 1e-8, 75, 50, 100)
pbm.enableRecording()
for i in range(1, 4):
    pbm.UpdatePBMEuler(float(i), 1e5*np.exp(-((pbm.PSDsize - 2e-9*i)/5e-10)**2))
pbm.disableRecording()                  #recording switched off between two solve calls
pbm.UpdatePBMEuler(4.0, pbm.PSD.copy())
assert pbm._recordedPSD.shape[0] == 4   #history of the first part is still there

f = os.path.join(tempfile.mkdtemp(), 'psd')
pbm.saveRecordedPSD(f)
new = PopulationBalanceModel(1e-10, 1e-8, 75, 50, 100)
try:
    new.loadRecordedPSD(f)
    ok = np.array_equal(new._recordedPSD, pbm._recordedPSD) and np.array_equal(new._recordedTime, pbm._recordedTime)
except Exception as e:
    print('history not saved:', repr(e))
    ok = False
if not ok:
    print('FAIL')
    sys.exit(1)
print('PASS')
