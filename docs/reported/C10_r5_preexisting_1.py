'''
Pre-existing (unmodified tree): kawin.thermo.Mobility.interdiffusivity_from_diff and
inverseMobility_from_diffusivity raise TypeError when called with their documented default
diffusivity_correction=None ("defaults to 1"): the default branch builds
{elements[A]: 1 for A in elements} and indexes the element list with an element name.
tracer_diffusivity_from_diff / interdiffusivity / mobility_from_composition_set handle None correctly.

Property sentence concerned: "the interdiffusivity matrix has real positive eigenvalues (positive scalar
for a binary)" cannot even be evaluated through the module-level API for the diffusivity-model
databases (Al-Zr) unless a correction dictionary is passed explicitly.

Exit 1 (FAIL) on the unmodified tree.
'''
import sys, warnings
import numpy as np
warnings.filterwarnings('ignore')
from kawin.thermo import BinaryThermodynamics
from kawin.thermo.Mobility import interdiffusivity_from_diff, inverseMobility_from_diffusivity
from kawin.tests.datasets import ALZR_TDB

therm = BinaryThermodynamics(ALZR_TDB, ['AL', 'ZR'], ['FCC_A1', 'AL3ZR'])
result, comp_sets = therm.getLocalEq(0.004, 673.15, 0, [therm.phases[0]])
cs = comp_sets[0]
callables = therm.diffCallables['FCC_A1']

expected = interdiffusivity_from_diff(cs, 'AL', callables, {})   # explicit (empty) correction works
print('with explicit correction dict:', expected)
ok = True
for name, call in [('interdiffusivity_from_diff', lambda: interdiffusivity_from_diff(cs, 'AL', callables)),
                   ('inverseMobility_from_diffusivity', lambda: inverseMobility_from_diffusivity(result.chemical_potentials, cs, 'AL', callables)[0])]:
    try:
        D = np.atleast_2d(call())
        good = np.allclose(D, expected) and D[0,0] > 0
        print(name, 'default correction ->', D, 'ok' if good else 'WRONG')
        ok = ok and good
    except Exception as e:
        print(name, 'default correction -> raises', repr(e))
        ok = False
print('PASS' if ok else 'FAIL')
sys.exit(0 if ok else 1)
