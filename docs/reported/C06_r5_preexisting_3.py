'''
Pre-existing weakness on the UNMODIFIED tree (exit 1 = present).  Lower confidence than 1 and 2: it needs a right-hand
side that returns a reused output buffer, which the documentation of the iterators neither allows nor forbids
("f : function taking in time and X and returning dX/dt").

Sentence concerned: "the Runge-Kutta iterator [is] fourth-order accurate".

RK4Iterator keeps references to the stage slopes (k1 = dxdt; dxdtsum = k1 + 2*k2 is formed only after k2 = f(...) was
called).  If f writes every result into the same preallocated array (np.multiply(x, -1, out=self.buf), a common
optimisation, and what a model gets for free when its flattenX returns a view as DiffusionModel.flattenX does) then k1 has
already been overwritten by k2 when the sum is formed: the step becomes X + dt/6*(3*k2 + 2*k3 + k4), which is first order.
Commit 997cf26 repaired the sister case (k1 being the state vector itself).
'''
import sys
import numpy as np
from kawin.solver.Iterators import RK4Iterator

buf = np.empty(2)
A = np.array([[-1.0, 2.0], [-2.0, -0.5]])
def f(t, x, getDt=False):
    np.matmul(A, x, out=buf)          #dx/dt = A x, written into a reused buffer
    return (buf, f.dt) if getDt else buf
upd = lambda x, dxdt, dt: x + dxdt*dt

from scipy.linalg import expm
x0 = np.array([1.0, 0.5]); T = 1.0
exact = expm(A*T) @ x0
errs = []
for n in (20, 40, 80):
    f.dt = T/n; x = x0.copy(); t = 0.0
    for i in range(n):
        x, dt = RK4Iterator(f, t, x, upd); t += dt
    errs.append(np.abs(x - exact).max())
errs = np.array(errs); p = np.log2(errs[:-1]/errs[1:])
print('errors', errs, 'observed order', p)
if np.any(p < 3.5):
    print('FAIL: RK4Iterator is first order when f returns a reused buffer (k1 is read after it was overwritten by k2)')
    sys.exit(1)
print('PASS')
