import sys, warnings
warnings.filterwarnings('ignore')
sys.path.insert(0, '/tmp/wt/C11.out/change1')
import numpy as np
from demo import IdealBinaryTherm
from kawin.precipitation import PrecipitateModel, PrecipitateParameters, MatrixParameters, VolumeParameter

def make(name, gamma):
    p = PrecipitateParameters(name, phase='BETA1')      # two precipitate populations of the same database phase
    p.gamma = gamma
    p.volume.setVolume(1e-5, VolumeParameter.MOLAR_VOLUME, 4)
    return p

def run(order):
    prm = {'pop_lo': 0.08, 'pop_hi': 0.12}
    matrix = MatrixParameters(['X'])
    matrix.volume.setVolume(1e-5, VolumeParameter.MOLAR_VOLUME, 4)
    matrix.initComposition = 8e-3
    matrix.nucleationSites.setNucleationDensity(grainSize=10, dislocationDensity=1e13)
    m = PrecipitateModel(matrixParameters=matrix, precipitateParameters=[make(n, prm[n]) for n in order])
    m.setPBMParameters(cMin=1e-10, cMax=2e-8, bins=75, minBins=50, maxBins=100)
    m.setTemperature(700)
    m.setThermodynamics(IdealBinaryTherm())
    m.solve(0.2)
    return m
a = run(['pop_lo', 'pop_hi']); b = run(['pop_hi', 'pop_lo'])
print('steps', a.pData.n, b.pData.n)
print('pop_lo final density', a.pData.precipitateDensity[-1,0], b.pData.precipitateDensity[-1,1])
print('pop_hi final density', a.pData.precipitateDensity[-1,1], b.pData.precipitateDensity[-1,0])
print('Gibbs-Thomson used for the 2nd listed population == that of the 1st:',
      np.allclose(a.particleGibbs(np.array([1e-9]), a.precipitateParameters[1].phase), a.precipitateParameters[0].computeGibbsThomsonContribution(np.array([1e-9]))))
