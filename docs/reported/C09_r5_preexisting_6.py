"""
Pre-existing (marginal) violation of C09 on the unmodified tree: composition cache of the diffusion models.

Sentence violated: "a cached value is only ever reused for a composition and temperature that round to the
same key at the configured precision" (quantified over all cache precisions).

HashTable.setHashSensitivity / DiffusionModel.setHashSensitivity change the precision but keep the entries that
were stored under the old precision. Keys are hash(tuple(int(v * 10**s))) without the precision itself, so an
entry stored with s digits for (x, T) is returned with s+1 digits for (x/10, T/10): e.g. (x=0.2, T=3000 K)
stored at 3 digits is handed out for (x=0.02, T=300 K) at 4 digits, although at 4 digits (2000, 30000000) and
(200, 3000000) are different keys. Both temperatures are inside the TEMP_LIM (298.15 - 6000 K) of the shipped
databases; only marginal because one of the two temperatures is necessarily 10x the other.
No thermodynamics needed.
"""
import sys
import numpy as np
from kawin.diffusion.DiffusionParameters import HashTable

h = HashTable()
h.setHashSensitivity(3)
h.addToHashTable(np.array([0.2]), 3000.0, 'value for x=0.2, T=3000')
h.setHashSensitivity(4)
got = h.retrieveFromHashTable(np.array([0.02]), 300.0)
print('retrieved for (x=0.02, T=300) at 4 digits:', got)
if got is None:
    print('PASS')
    sys.exit(0)
print('FAIL: a value cached for another composition and temperature is reused after the precision was changed')
sys.exit(1)
